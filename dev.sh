#!/bin/bash
# dev helper: ./dev.sh build | ./dev.sh run PROP START COUNT [ENV...] | ./dev.sh ls PROP START COUNT
export GOLOG_LOG_LEVEL=fatal
case $1 in
 build) ./build.sh /tmp/scr >/dev/null ;;
 run) P=$2; S=$3; C=$4; shift 4; env "$@" SIM_PROP=$P SIM_SEEDS=$S:$C SIM_WATCHDOG_S=20 /tmp/scr/harness.test -test.run '^TestWorker$' -test.timeout 0 ;;
 ls) P=$2; S=$3; C=$4; shift 4; seq $S $((S+C-1)) | xargs -P 16 -I{} env "$@" SIM_PROP=$P SIM_SEEDS={}:1 SIM_WATCHDOG_S=20 /tmp/scr/harness.test -test.run '^TestWorker$' -test.timeout 0 2>/dev/null | grep '^END' | python3 -c "
import sys,json
for l in sys.stdin:
    r=json.loads(l.split(' ',2)[2])
    if r['verdict']!='ok': print(r['seed'], r['verdict'], r.get('aborted'), r['steps'], r.get('fired'), [ (v['oracle'],v['detail'][:200]) for v in r.get('violations',[])][:2])
" ;;
esac
