module verifsim

go 1.26.8

require (
	github.com/filecoin-project/go-jsonrpc v0.0.0
	github.com/gorilla/websocket v1.4.2
	github.com/anishathalye/porcupine v1.3.0
)
