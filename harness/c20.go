package harness

import (
	"fmt"
	"net/http"
	"strings"
	"sync"
	"time"

	jsonrpc "github.com/filecoin-project/go-jsonrpc"
	"github.com/filecoin-project/go-jsonrpc/httpio"

	"verifsim/simrt"
)

// C20 — reader parameters stream byte-exact and honour the io.Reader contract.
// Which of the side-channel upload and the RPC request reaches the server first
// is a network scheduling decision, as is the interleaving of concurrent uploads.

func init() {
	register(&Scenario{Prop: "C20", Gen: genC20, Run: runC20,
		Nontrivial: func(r *RunRes) bool { return r.NOps >= 1 && r.Steps > 30 }})
}

var readerLens = []int{0, 1, 511, 512, 513, 4095, 4096, 4097, 32767, 32768, 32769, 1 << 20}

func genC20(r *simrt.RNG, tier string, variant int) Plan {
	p := Plan{Family: "healthy", Params: map[string]int64{}}
	p.Servers = []ServerPlan{{Addr: "srv0:1", PingNs: -1}}
	p.Clients = []ClientPlan{{Name: "A", Kind: Pick(r, []string{"ws", "ws", "http"}), Server: 0}}
	if r.Bool(0.05) {
		// many concurrent reader-carrying calls whose handlers wait for each other
		// before any of them reads (an application-level barrier): no call may depend
		// on another one's stream having been consumed first
		p.Family = "barrier"
		nb := Pick(r, []int{5, 17, 20, 33})
		for i := 0; i < nb; i++ {
			p.Ops = append(p.Ops, Op{Kind: "reader", Client: 0, Tok: i + 1, Size: Pick(r, []int{0, 1, 513, 4097}), N: Pick(r, []int{0, 2, 3, 5}),
				Src: Pick(r, []int{0, 0, 1, 2, 3})})
		}
		p.Params["barrier"] = int64(nb)
		p.Params["window"] = Pick(r, []int64{0, 16384})
		return p
	}
	n := 1 + r.Intn(4)
	big := false
	for i := 0; i < n; i++ {
		sz := Pick(r, readerLens)
		if sz >= 1<<20 {
			if big || tier == "quick" && r.Bool(0.7) {
				sz = 4097
			}
			big = true
		}
		pat := r.Intn(7)
		if variant >= 0 {
			pat = variant % 7
			sz = readerLens[(variant/7)%len(readerLens)]
		}
		if pat == 1 && sz > 5000 {
			pat = 2 // byte-at-a-time over megabytes is only slow
		}
		op := Op{Kind: "reader", Client: 0, Tok: i + 1, Size: sz, N: pat, Hold: r.Bool(0.3), Src: Pick(r, []int{0, 0, 0, 1, 2, 3})}
		if r.Bool(0.2) {
			op.SleepNs = Pick(r, []int64{int64(2e9), int64(15e9)}) // a slow consumer
		}
		if p.Clients[0].Kind == "ws" && r.Bool(0.15) {
			// the reader is a parameter of a channel-returning method and is consumed
			// by a goroutine that outlives the method call
			op.Kind, op.N = "readersub", 0
		}
		p.Ops = append(p.Ops, op)
	}
	if p.Clients[0].Kind == "ws" && r.Bool(0.2) {
		// a retry-tagged reader call issued while the connection is down: it is
		// retried after the reconnect and must still deliver its bytes exactly
		p.Family = "retry-outage"
		p.Faults = []Fault{{Kind: "rst", Pipe: 0, Dir: "s2c", Frame: -1}}
		for i := range p.Ops {
			if p.Ops[i].N == 4 {
				p.Ops[i].N = 0
			}
			p.Ops[i].Kind, p.Ops[i].Phase = "reader-retry", 1
		}
	} else if r.Bool(0.3) {
		// two reader-enabled servers in one process; calls alternate between them
		p.Servers = append(p.Servers, ServerPlan{Addr: "srv1:1", PingNs: -1})
		p.Clients = append(p.Clients, ClientPlan{Name: "B", Kind: p.Clients[0].Kind, Server: 1})
		for i := range p.Ops {
			p.Ops[i].Client = i % 2
		}
	}
	// TCP flow control on the upload connection: bodies beyond the window are
	// only partly in flight until the handler reads
	p.Params["window"] = Pick(r, []int64{0, 16384, 262144})
	return p
}

type uploadRec struct {
	mu       sync.Mutex
	started  int
	finished int
	statuses []int
}

type statusWriter struct {
	http.ResponseWriter
	code int
}

func (s *statusWriter) WriteHeader(c int) { s.code = c; s.ResponseWriter.WriteHeader(c) }

func runC20(e *Env, p *Plan) {
	rec := &uploadRec{}
	e.BarrierN = int(p.Param("barrier", 0))
	if e.BarrierN > 0 {
		e.Probe("handlers-wait-for-each-other")
	}
	e.N.Cfg.HTTPWindow = int(p.Param("window", 0))
	rh, dec := httpio.ReaderParamDecoder()
	oldDT := http.DefaultTransport
	dt := &http.Transport{DialContext: e.N.Dialer(false), DisableKeepAlives: true}
	http.DefaultTransport = dt
	defer func() { http.DefaultTransport = oldDT }()
	_, _ = rh, dec
	w := &World{E: e, P: p}
	for _, sp := range p.Servers {
		rh, dec := httpio.ReaderParamDecoder() // every server has its own rendezvous table
		srv := e.NewServer(sp.Addr, ServerOpts{PingInterval: 0, Extra: []jsonrpc.ServerOption{dec}, Mux: func(mux *http.ServeMux) {
			mux.HandleFunc("/rd/", func(w http.ResponseWriter, r *http.Request) {
				rec.mu.Lock()
				rec.started++
				rec.mu.Unlock()
				sw := &statusWriter{ResponseWriter: w, code: 200}
				rh(sw, r)
				rec.mu.Lock()
				rec.finished++
				rec.statuses = append(rec.statuses, sw.code)
				rec.mu.Unlock()
			})
		}})
		w.Servers = append(w.Servers, srv)
	}
	for _, cp := range p.Clients {
		srv := w.Servers[cp.Server]
		c, err := e.NewClient(cp.Name, srv, ClientOpts{Kind: cp.Kind, Ping: 0, BackoffMin: int64(5e6), BackoffMax: int64(20e6),
			Extra: []jsonrpc.Option{httpio.ReaderParamEncoder("http://" + srv.Addr + "/rd")}})
		if err != nil {
			e.Violate("setup", "client: %v", err)
			return
		}
		w.Clients = append(w.Clients, c)
	}
	srv := w.Servers[0]
	_ = srv
	if p.Family == "retry-outage" && len(p.Faults) > 0 {
		// cut the RPC connection, then issue the retry-tagged calls inside the outage
		e.N.RefuseNext(p.Servers[0].Addr, 2)
		e.N.Inject(0, "rst", "both", 0)
		e.Probe("reader-call-retried-after-outage")
	}
	for _, op := range p.Ops {
		w.Start(op, nil)
	}
	if !e.S.Settle(40 * time.Second) {
		return
	}
	if p.Family == "retry-outage" {
		// the method-retry back-off (100 ms * 1.5^n) needs some fake time
		if !e.S.Settle(2 * time.Minute) {
			return
		}
	}
	w.CheckAllReturned("C20.call-returns")
	for _, op := range p.Ops {
		t := e.Tok(op.Tok)
		if !t.Returned {
			continue
		}
		if t.RetErr != nil {
			if strings.Contains(t.RetErr.Error(), "panic") {
				e.Violate("C20.reader-contract", "tok=%d (len %d, read pattern %d): the handler's use of the reader panicked: %v", op.Tok, op.Size, op.N, t.RetErr)
			} else {
				e.Violate("C20.byte-exact", "tok=%d (len %d, pattern %d) failed: %v", op.Tok, op.Size, op.N, t.RetErr)
			}
			continue
		}
		want := Payload(op.Tok, op.Size)
		if op.N == 4 || op.N == 6 {
			k := op.Size/2 + 1
			if k > op.Size {
				k = op.Size
			}
			want = want[:k]
		}
		parts := strings.SplitN(t.Val, ":", 3)
		if len(parts) != 3 {
			e.Violate("C20.byte-exact", "tok=%d: unexpected handler report %q", op.Tok, trunc(t.Val))
			continue
		}
		if parts[0] != itoa(len(want)) || parts[1] != fmt.Sprintf("%08x", fnv(want)) {
			e.Violate("C20.byte-exact", "tok=%d (pattern %d): handler saw %s bytes with hash %s, caller sent %d bytes with hash %08x", op.Tok, op.N, parts[0], parts[1], len(want), fnv(want))
		}
		if strings.Contains(parts[2], "past-eof-read") {
			e.Violate("C20.eof-consistent", "tok=%d: reads after end-of-file did not return (0, EOF): %s", op.Tok, parts[2])
		}
	}
	rec.mu.Lock()
	st, fin := rec.started, rec.finished
	codes := append([]int(nil), rec.statuses...)
	rec.mu.Unlock()
	if st != fin {
		e.Violate("C20.upload-completes", "%d upload request(s) reached the server, %d completed: an upload is left open although every handler has returned", st, fin)
	}
	for _, c := range codes {
		if c != 200 {
			e.Violate("C20.upload-completes", "an upload request was answered with status %d", c)
		}
	}
	dt.CloseIdleConnections()
	w.Teardown()
}

var _ = simrt.Yield
