package harness

import (
	"context"
	"encoding/json"
	"fmt"
	"sync"
	"time"

	"verifsim/simnet"
	"verifsim/simrt"
)

// C07 — channel streams are ordered, lossless, duplicate-free and independent
//        (family "healthy": the only termination cause is the handler's close).
// C08 — every client channel terminates: closed once, prefix only
//        (family "faulty": termination causes = handler close, subscription
//        context cancel, connection fault at any frame position, client close,
//        and pairs of them racing).

func init() {
	register(&Scenario{Prop: "C07", Gen: func(r *simrt.RNG, tier string, v int) Plan { return genStreams(r, tier, v, "C07") }, Run: runStreams,
		Nontrivial: func(r *RunRes) bool { return r.Parks["rselect"] > 4 }})
	register(&Scenario{Prop: "C08", Gen: func(r *simrt.RNG, tier string, v int) Plan { return genStreams(r, tier, v, "C08") }, Run: runStreams,
		Nontrivial: func(r *RunRes) bool {
			return r.Parks["rselect"] > 4 && (firedAny(r) || r.Probes["cause-cancel"]+r.Probes["cause-close"] > 0)
		}})
}

var streamLens = []int{0, 1, 2, 5, 31, 32, 33, 100, 300}

func genStreams(r *simrt.RNG, tier string, variant int, prop string) Plan {
	p := Plan{Family: "healthy", Params: map[string]int64{}}
	p.Servers = []ServerPlan{{Addr: "srv0:1", PingNs: Pick(r, []int64{0, -1, int64(1e9)})}}
	p.Clients = []ClientPlan{{Name: "A", Kind: "ws", Server: 0, BackoffMin: int64(10e6), BackoffMax: int64(100e6)}}
	if r.Bool(0.35) {
		p.Clients = append(p.Clients, ClientPlan{Name: "B", Kind: "ws", Server: 0})
	}
	tok := 1
	if len(p.Clients) == 2 && r.Bool(0.6) {
		// twin streams on two connections of one server: same length, started
		// together, so that their values and their closes overlap in time (whatever
		// the server shares between connections is then used by both at once)
		k := Pick(r, []int{1, 2, 3, 5})
		for c := 0; c < 2; c++ {
			p.Ops = append(p.Ops, Op{Kind: "sub", Client: c, Tok: tok, N: k})
			tok++
		}
	}
	ns := 1 + r.Intn(5)
	total := 0
	for i := 0; i < ns; i++ {
		n := Pick(r, streamLens)
		if tier == "thorough" && i == 0 && r.Bool(0.04) {
			// rare very long stream to a possibly stalled consumer: beyond any
			// plausible internal bound (thousands of values)
			n = Pick(r, []int{1500, 9000})
			p.Params["max_steps"] = 600000
		}
		if total+n > 420 && n < 1000 {
			n = Pick(r, []int{0, 1, 5, 33})
		}
		total += n
		op := Op{Kind: "sub", Client: r.Intn(len(p.Clients)), Tok: tok, N: n, Hold: r.Bool(0.3), Alias: r.Bool(0.2)}
		if r.Bool(0.3) {
			op.Kind = "subt" // struct elements, optionally large (multi-frame values)
			op.Size = Pick(r, []int{0, 0, 50, 5000})
		} else if r.Bool(0.12) && n >= 2 {
			op.Kind = "subf" // float elements, one of them not encodable (NaN): dropped
			op.Size = 1 + r.Intn(n-1)
		}
		tok++
		if prop == "C08" && r.Bool(0.25) {
			op.IgnoreCtx = true // the handler keeps sending after a cancellation
		}
		if r.Bool(0.15) {
			op.Stall = true
		} else if r.Bool(0.1) && prop == "C07" {
			op.Consume = 1 + r.Intn(3)
		}
		p.Ops = append(p.Ops, op)
	}
	nu := r.Intn(4)
	for i := 0; i < nu; i++ {
		p.Ops = append(p.Ops, Op{Kind: "call", Client: r.Intn(len(p.Clients)), Tok: tok, Size: Pick(r, []int{0, 100, 5000}), Hold: r.Bool(0.5), Phase: r.Intn(2)})
		tok++
	}
	if prop == "C07" {
		return p
	}
	p.Family = "faulty"
	// termination causes; Phase = number of scheduler yields before the cause acts
	ncause := 1 + r.Intn(2)
	causes := []string{"cancel", "cancel", "close", "cut", "cut", "cut"}
	if variant >= 0 {
		ncause = 1
		causes = []string{causes[variant%len(causes)]}
	}
	for i := 0; i < ncause; i++ {
		c := Pick(r, causes)
		delay := Pick(r, []int{0, 1, 3, 10, 40, 150})
		if variant >= 0 {
			delay = (variant / 6) % 200
		}
		switch c {
		case "cancel":
			// cancel the context of one subscription
			var subs []int
			for _, op := range p.Ops {
				if op.Kind == "sub" || op.Kind == "subt" || op.Kind == "subf" {
					subs = append(subs, op.Tok)
				}
			}
			p.Faults = append(p.Faults, Fault{Kind: "cancel", N: Pick(r, subs), Phase: delay, Frame: -1})
		case "close":
			p.Faults = append(p.Faults, Fault{Kind: "close", Client: 0, Phase: delay, Frame: -1})
		case "cut":
			p.Faults = append(p.Faults, Fault{Kind: Pick(r, []string{"fin", "rst", "blackhole-both", "stall"}), Pipe: 0, Dir: Pick(r, []string{"s2c", "s2c", "c2s"}),
				Frame: r.Intn(14), Pos: Pick(r, cutPos), DurNs: int64(45e9)})
			if r.Bool(0.5) {
				// streams opened on the re-established connection, after everything healed
				for k := 0; k < 1+r.Intn(2); k++ {
					tok2 := 500 + len(p.Ops) // unique even when several cuts are planned
					_ = k
					p.Ops = append(p.Ops, Op{Kind: "sub", Client: 0, Tok: tok2, N: Pick(r, []int{10, 60, 200}), Phase: 2})
				}
			}
		}
	}
	return p
}

func runStreams(e *Env, p *Plan) {
	prop := p.Prop
	w, err := e.Build(p)
	if err != nil {
		e.Violate("setup", "building the world failed on a healthy network: %v", err)
		return
	}
	cancels := map[int]context.CancelFunc{}
	ctxs := map[int]context.Context{}
	var cmu sync.Mutex
	cancelled := map[int]bool{}
	for _, op := range p.Ops {
		if op.Kind == "sub" || op.Kind == "subt" || op.Kind == "subf" {
			ctx, cancel := context.WithCancel(context.Background())
			cancels[op.Tok], ctxs[op.Tok] = cancel, ctx
		}
	}
	defer func() {
		for _, c := range cancels {
			c()
		}
	}()
	for _, f := range p.Faults {
		f := f
		switch f.Kind {
		case "cancel":
			if cancel := cancels[f.N]; cancel != nil {
				e.S.Go(fmt.Sprintf("cancel-%d", f.N), func() {
					for i := 0; i < f.Phase; i++ {
						simrt.Yield("cause-delay")
					}
					e.Probe("cause-cancel")
					cmu.Lock()
					cancelled[f.N] = true
					cmu.Unlock()
					simrt.Rec("cancel", itoa(f.N), "", 0)
					cancel()
				})
			}
		case "close":
			if f.Client < len(w.Clients) {
				c := w.Clients[f.Client]
				e.S.Go("closer-"+c.Name, func() {
					for i := 0; i < f.Phase; i++ {
						simrt.Yield("cause-delay")
					}
					e.Probe("cause-close")
					c.Close(e)
				})
			}
		default:
			e.N.PlanCut(f.Pipe, simnet.Cut{Dir: f.Dir, Frame: f.Frame, Pos: f.Pos, Kind: f.Kind, Dur: dur(f.DurNs)})
		}
	}
	for _, op := range p.Ops {
		if op.Phase == 0 {
			w.Start(op, ctxs[op.Tok])
		}
	}
	if !e.S.Settle(2 * time.Second) {
		return
	}
	for _, op := range p.Ops {
		if op.Phase == 1 {
			w.Start(op, ctxs[op.Tok])
		}
	}
	horizon := 5 * time.Second
	if prop == "C08" {
		e.S.Settle(time.Minute)
		e.N.Heal()
		horizon = H
		late := false
		for _, op := range p.Ops {
			late = late || op.Phase == 2
		}
		if late {
			if !e.S.Settle(2 * time.Minute) {
				return
			}
			for _, op := range p.Ops {
				if op.Phase == 2 {
					e.Probe("stream-opened-after-the-reconnect")
					w.Start(op, ctxs[op.Tok])
				}
			}
		}
	}
	if !e.S.Settle(horizon) {
		return
	}

	// ---- oracles ---------------------------------------------------------------
	for _, op := range p.Ops {
		if op.Kind != "sub" && op.Kind != "subt" && op.Kind != "subf" {
			continue
		}
		if op.Kind == "subf" {
			checkSubF(e, prop, op)
			continue
		}
		st := e.Sub(op.Tok)
		st.mu.Lock()
		prod, recv, handed, closed, pdone := append([]int(nil), st.Produced...), append([]int(nil), st.Received...), st.Handed, st.Closed, st.ProdDone
		st.mu.Unlock()
		// prefix / order / no duplicates / nothing invented: always
		for i, v := range recv {
			if i >= len(prod) || prod[i] != v {
				// the value may have been taken by the forwarder before Produced was
				// recorded; compare against what the producer generates instead
				if v != SubVal(op.Tok, i) {
					e.Violate(prop+".prefix", "subscription tok=%d: received[%d]=%d but the handler's %d-th value is %d (invented, duplicated, reordered or foreign value); received=%v", op.Tok, i, v, i, SubVal(op.Tok, i), clip(recv))
					break
				}
			}
		}
		if len(recv) > len(prod)+1 {
			e.Violate(prop+".prefix", "subscription tok=%d: received %d values but the handler sent only %d", op.Tok, len(recv), len(prod))
		}
		if prop == "C07" {
			if !handed {
				t := e.Tok(op.Tok)
				if t.Returned {
					e.Violate("C07.subscribe", "subscription tok=%d failed on a healthy connection: %v", op.Tok, t.RetErr)
				}
				continue
			}
			if !pdone || len(prod) != op.N {
				e.Violate("C07.independent", "subscription tok=%d: the producer could only send %d of %d values (stalled by another subscription or call?)", op.Tok, len(prod), op.N)
			}
			switch {
			case op.Stall:
			case op.Consume > 0:
				want := op.Consume
				if want > op.N {
					want = op.N
				}
				if len(recv) != want {
					e.Violate("C07.lossless", "subscription tok=%d: consumer wanted %d values, got %d", op.Tok, want, len(recv))
				}
			default:
				if len(recv) != op.N {
					e.Violate("C07.lossless", "subscription tok=%d: received %d of %d values: %v", op.Tok, len(recv), op.N, clip(recv))
				}
				if !closed {
					e.Violate("C07.close-after-last", "subscription tok=%d: all %d values sent and the handler closed, but the caller's channel is not closed", op.Tok, op.N)
				}
			}
			continue
		}
		// C08: every channel handed to a caller is closed by the end
		if handed && !op.Stall && !closed {
			cmu.Lock()
			cz := cancelled[op.Tok]
			cmu.Unlock()
			e.Violate("C08.closed-eventually", "subscription tok=%d: the channel handed to the caller was never closed (handler closed=%v, ctx cancelled=%v, received %d of %d sent)", op.Tok, pdone, cz, len(recv), len(prod))
		}
	}
	if prop == "C07" {
		w.CheckAllReturned("C07.independent-calls")
		w.CheckOwnResults("C07.independent-calls", false)
		w.checkStreamWire("C07.wire-order")
	} else {
		w.CheckAllReturned("C08.hang")
		w.checkStreamWire("C08.wire-order")
	}
	w.Teardown()
}

func clip(v []int) []int {
	if len(v) > 12 {
		return append(append([]int{}, v[:6]...), v[len(v)-6:]...)
	}
	return v
}

// checkStreamWire: on every pipe the response announcing channel id c precedes
// the first xrpc.ch.val / xrpc.ch.close for c; values carry only announced ids
// and belong to the subscription that id was announced for.
func (w *World) checkStreamWire(oracle string) {
	for _, p := range w.WSPipes() {
		subReq := map[string]int{} // request id -> tok
		for _, m := range w.Wire(p, "c2s") {
			if (m.Method == "T.Sub" || m.Method == "T.SubAlias" || m.Method == "T.SubT" || m.Method == "T.SubF") && m.HasID {
				subReq[m.ID] = tokOfParams(m.Params)
			}
		}
		chanTok := map[string]int{} // chid -> tok
		for i, m := range w.Wire(p, "s2c") {
			if !m.HasMethod && m.HasID && m.HasResult {
				if tok, ok := subReq[m.ID]; ok {
					chanTok[string(m.Result)] = tok
				}
				continue
			}
			if m.Method != "xrpc.ch.val" && m.Method != "xrpc.ch.close" {
				continue
			}
			var ps []json.RawMessage
			if json.Unmarshal(m.Params, &ps) != nil || len(ps) == 0 {
				w.E.Violate(oracle, "pipe c%d s2c message %d: malformed %s params %q", p.ID, i, m.Method, trunc(string(m.Params)))
				continue
			}
			tok, ok := chanTok[string(ps[0])]
			if !ok {
				w.E.Violate(oracle, "pipe c%d s2c message %d: %s for channel id %s before (or without) the response announcing that channel", p.ID, i, m.Method, string(ps[0]))
				continue
			}
			if m.Method == "xrpc.ch.val" && len(ps) > 1 {
				var v int
				if json.Unmarshal(ps[1], &v) == nil && v/100000 != tok {
					w.E.Violate(oracle, "pipe c%d: value %d of subscription tok=%d travelled on the channel id announced for tok=%d", p.ID, v, v/100000, tok)
				}
			}
		}
	}
}

// checkSubF: a float stream with one unencodable element (NaN at index op.Size):
// that element is dropped, every other one arrives in order, the stream closes
// (C07), or a prefix of that sequence arrives (C08).
func checkSubF(e *Env, prop string, op Op) {
	st := e.Sub(op.Tok)
	st.mu.Lock()
	recv, handed, closed, pdone := append([]int(nil), st.Received...), st.Handed, st.Closed, st.ProdDone
	st.mu.Unlock()
	var want []int
	for k := 0; k < op.N; k++ {
		if k != op.Size {
			want = append(want, SubVal(op.Tok, k))
		}
	}
	for i, v := range recv {
		if i >= len(want) || want[i] != v {
			e.Violate(prop+".prefix", "float subscription tok=%d (element %d is NaN): received[%d]=%d, want %v", op.Tok, op.Size, i, v, clip(want))
			return
		}
	}
	if prop != "C07" || !handed || op.Stall || op.Consume > 0 {
		if prop == "C08" && handed && !op.Stall && !closed {
			e.Violate("C08.closed-eventually", "float subscription tok=%d: channel never closed", op.Tok)
		}
		return
	}
	if !pdone || len(recv) != len(want) || !closed {
		e.Violate("C07.lossless", "float subscription tok=%d with one unencodable element: received %d of %d encodable values, producer done=%v, closed=%v (one bad element must not stop the stream or the connection's other streams)", op.Tok, len(recv), len(want), pdone, closed)
	}
}
