package harness

import (
	"encoding/json"
	"fmt"
	"os"
	"runtime"
	"strconv"
	"strings"
	"sync/atomic"
	"testing"
	"time"

	"verifsim/simrt"
)

// TestWorker is the entry point of a simulation worker process. Protocol
// (stdout): "BEGIN <seed>" before and "END <seed> <json>" after every run.
// Exit codes: 0 batch done; 75 a run left goroutines behind (restart after the
// last END); 3 watchdog; anything else with no END for the seed in progress is
// a crash of the process during that seed.
func TestWorker(t *testing.T) {
	prop := os.Getenv("SIM_PROP")
	if prop == "" {
		t.Skip("SIM_PROP not set")
	}
	tier := os.Getenv("SIM_TIER")
	if tier == "" {
		tier = "quick"
	}
	var progress atomic.Int64
	var curSeed atomic.Uint64
	wd := 30 * time.Second
	if s := os.Getenv("SIM_WATCHDOG_S"); s != "" {
		if n, err := strconv.Atoi(s); err == nil {
			wd = time.Duration(n) * time.Second
		}
	}
	go func() {
		last := progress.Load() + int64(simrt.Heartbeat.Load())
		for {
			time.Sleep(wd)
			now := progress.Load() + int64(simrt.Heartbeat.Load())
			if now == last {
				fmt.Printf("WATCHDOG %d\n", curSeed.Load())
				buf := make([]byte, 4<<20)
				os.Stderr.Write(buf[:runtime.Stack(buf, true)])
				os.Exit(3)
			}
			last = now
		}
	}()

	if rp := os.Getenv("SIM_REPLAY"); rp != "" {
		b, err := os.ReadFile(rp)
		if err != nil {
			t.Fatal(err)
		}
		var rf ReplayFile
		if err := json.Unmarshal(b, &rf); err != nil {
			t.Fatal(err)
		}
		curSeed.Store(rf.Seed)
		fmt.Printf("BEGIN %d\n", rf.Seed)
		res := RunOne(t, RunReq{Prop: rf.Prop, Seed: rf.Seed, Tier: rf.Tier, Variant: rf.Variant, Replay: &rf,
			Lenient: os.Getenv("SIM_LENIENT") != "", Trace: os.Getenv("SIM_TRACE"), Verbose: os.Getenv("SIM_VERBOSE") != ""})
		emit(res)
		return
	}

	// SIM_SEEDS = "start:count[:variantStart[:variantMod]]"
	parts := strings.Split(os.Getenv("SIM_SEEDS"), ":")
	start, _ := strconv.ParseUint(parts[0], 10, 64)
	count := 1
	if len(parts) > 1 {
		count, _ = strconv.Atoi(parts[1])
	}
	variant := -1
	if v := os.Getenv("SIM_VARIANT"); v != "" {
		variant, _ = strconv.Atoi(v)
	}
	for i := 0; i < count; i++ {
		seed := start + uint64(i)
		curSeed.Store(seed)
		fmt.Printf("BEGIN %d\n", seed)
		v := variant
		if b := os.Getenv("SIM_VARIANT_BASE"); b != "" {
			// thorough tier: the variant (systematic dimension index) is the run's
			// position in the whole batch, every second run (the others stay random)
			base, _ := strconv.ParseUint(b, 10, 64)
			if (seed-base)%2 == 0 {
				v = int((seed - base) / 2)
			}
		}
		res := RunOne(t, RunReq{Prop: prop, Seed: seed, Tier: tier, Variant: v,
			Trace: os.Getenv("SIM_TRACE"), Dump: os.Getenv("SIM_DUMP"), Verbose: os.Getenv("SIM_VERBOSE") != ""})
		emit(res)
		progress.Add(1)
	}
	EmitPairs()
}
