// Package harness holds the simulated world (servers, clients, handlers,
// callers), the per-property workload generators and the oracles.
package harness

import (
	"context"
	"encoding/json"
	"fmt"
	"go.opencensus.io/trace"
	"net"
	"net/http"
	"reflect"
	"sort"
	"strings"
	"sync"
	"time"

	jsonrpc "github.com/filecoin-project/go-jsonrpc"
	"github.com/gorilla/websocket"

	"verifsim/simnet"
	"verifsim/simrt"
)

// H is the hang-oracle horizon: above every finite timer the library can arm
// (30 s timeout, 45 s handshake, 5 s reconnect cap, 10 min method-retry cap).
const H = 12 * time.Minute

type Violation struct {
	Oracle string `json:"oracle"`
	Detail string `json:"detail"`
}

// RunCfg is everything that configures one run besides the plan; it is drawn
// from the seed (swarm style) and stored in replay files.
type RunCfg struct {
	Policy   string  `json:"policy"`
	PreemptP float64 `json:"preempt_p"`
	PCTDepth int     `json:"pct_depth"`
	TickP    float64 `json:"tick_p"`
	ChunkMax int     `json:"chunk_max"`
	LatMinUs int64   `json:"lat_min_us"`
	LatMaxUs int64   `json:"lat_max_us"`
	MaxSteps int     `json:"max_steps"`
	FineMod  int     `json:"fine_mod,omitempty"`
}

func GenRunCfg(r *simrt.RNG) RunCfg {
	c := RunCfg{MaxSteps: 150000}
	switch r.Intn(4) {
	case 0:
		c.Policy = "random"
	case 1, 2:
		c.Policy = "rtc"
		c.PreemptP = []float64{0.02, 0.1, 0.3}[r.Intn(3)]
	default:
		c.Policy = "pct"
		c.PCTDepth = 1 + r.Intn(3)
	}
	c.TickP = []float64{0, 0.02, 0.2}[r.Intn(3)]
	c.ChunkMax = []int{0, 0, 1, 7, 100, 1500}[r.Intn(6)]
	switch r.Intn(4) {
	case 0:
		c.LatMinUs, c.LatMaxUs = 50, 500
	case 1:
		c.LatMinUs, c.LatMaxUs = 1000, 40000
	}
	// one run in six schedules a random eighth (or quarter) of the library's
	// functions statement by statement
	if r.Intn(6) == 0 {
		c.FineMod = []int{8, 8, 4}[r.Intn(3)]
	}
	return c
}

type Env struct {
	Seed uint64
	Cfg  RunCfg
	S    *simrt.Sched
	N    *simnet.Net
	R    *simrt.RNG

	mu         sync.Mutex
	viol       []Violation
	BarrierN   int // > 0: reader handlers wait for each other (Arrive)
	barrierCnt int
	barrierC   chan struct{}
	Toks       map[int]*Tok
	Subs       map[int]*SubState
	Probes     map[string]int
	servers    []*Server
	clients    []*Client
	Counter    int64
	Done       chan struct{} // closed at teardown: harness producers stop
	doneOnce   sync.Once
	invs       []inv
	atStep     []stepHook
	Notes      []string
}

func NewEnv(seed uint64, cfg RunCfg, follow []string, lenient bool) *Env {
	sc := simrt.Config{Policy: cfg.Policy, PreemptP: cfg.PreemptP, PCTDepth: cfg.PCTDepth, TickP: cfg.TickP,
		MaxSteps: cfg.MaxSteps, Follow: follow, Lenient: lenient, FineMod: cfg.FineMod}
	s := simrt.New(seed, sc)
	n := simnet.New(s, simnet.Cfg{ChunkMax: cfg.ChunkMax, ParkWrites: true,
		LatMin: time.Duration(cfg.LatMinUs) * time.Microsecond, LatMax: time.Duration(cfg.LatMaxUs) * time.Microsecond})
	e := &Env{Seed: seed, Cfg: cfg, S: s, N: n, R: simrt.NewRNG(seed).Sub("env"),
		Toks: map[int]*Tok{}, Subs: map[int]*SubState{}, Probes: map[string]int{}, Done: make(chan struct{})}
	websocket.DefaultDialer = &websocket.Dialer{NetDialContext: n.Dialer(true), HandshakeTimeout: 45 * time.Second}
	return e
}

func (e *Env) Violate(oracle, format string, a ...interface{}) {
	if e.S.Free() {
		return // the run was aborted (cap hit) or is tearing down: no verdicts
	}
	detail := fmt.Sprintf(format, a...) // before taking the lock: formatting may call into library code
	e.mu.Lock()
	defer e.mu.Unlock()
	if len(e.viol) < 20 {
		e.viol = append(e.viol, Violation{Oracle: oracle, Detail: detail})
	}
}

// SettleUntil settles repeatedly until cond holds or max of fake time has
// passed. Harness activities that alternate sleeping and yielding (slow
// producers) cannot be waited for with one fixed Settle: voluntary clock
// advances taken while they are parked use up any fixed window.
func (e *Env) SettleUntil(cond func() bool, step, max time.Duration) bool {
	start := e.S.Now()
	for !cond() && e.S.Now()-start < max {
		if !e.S.Settle(step) {
			return false
		}
	}
	return true
}

// Invariant registers a check evaluated by the scheduler at every quiescent
// point. A non-empty result is a violation and ends the run at once.
func (e *Env) Invariant(oracle string, f func() string) {
	e.invs = append(e.invs, inv{oracle, f})
	e.installOnStep()
}

// ClearInvariants stops invariant checking (before teardown).
func (e *Env) ClearInvariants() { e.invs = nil }

// AtStep runs f (in the scheduler goroutine, at a quiescent point) when the
// step counter reaches k.
func (e *Env) AtStep(k uint64, f func()) {
	e.atStep = append(e.atStep, stepHook{k, f, false})
	e.installOnStep()
}

type stepHook struct {
	k    uint64
	f    func()
	done bool
}

func (e *Env) installOnStep() {
	e.S.OnStep = func(s *simrt.Sched) {
		for i := range e.atStep {
			if h := &e.atStep[i]; !h.done && s.Step() >= h.k {
				h.done = true
				h.f()
				s.Acted = true
			}
		}
		for _, i := range e.invs {
			if d := i.f(); d != "" {
				e.Violate(i.oracle, "%s", d)
				s.Aborted = "violation: invariant " + i.oracle
				return
			}
		}
	}
}

type inv struct {
	oracle string
	f      func() string
}

func (e *Env) Violations() []Violation {
	e.mu.Lock()
	defer e.mu.Unlock()
	return append([]Violation(nil), e.viol...)
}

// Arrive implements an application-level barrier between handlers: with
// BarrierN > 0 every caller blocks until BarrierN handlers have arrived (or the
// world is torn down).
func (e *Env) Arrive() {
	e.mu.Lock()
	if e.BarrierN == 0 {
		e.mu.Unlock()
		return
	}
	if e.barrierC == nil {
		e.barrierC = make(chan struct{})
	}
	e.barrierCnt++
	if e.barrierCnt == e.BarrierN {
		close(e.barrierC)
	}
	c := e.barrierC
	e.mu.Unlock()
	select {
	case <-c:
		simrt.Yield("barrier-wake") // everybody wakes at once: the scheduler orders them
	case <-e.Done:
	}
}

func (e *Env) Probe(name string) {
	e.mu.Lock()
	e.Probes[name]++
	e.mu.Unlock()
}

// ---- tokens -------------------------------------------------------------------

// Tok is the plan and the observed fate of one call, identified by a unique token.
type Tok struct {
	ID               int
	Kind             string // plain | retry | notify | ctx | add | sub | rev | reader
	Size             int    // result padding
	Err              bool   // handler returns the error E<tok>
	Panic            string // handler panics with this payload kind
	Delta            int64  // add
	N                int    // stream length
	Hold             bool   // handler parks until the scheduler releases it
	SleepNs          int64  // handler takes this much fake time
	GapNs            int64  // sub: producer pause between values
	InvokeT, ReturnT time.Duration
	Gate             chan struct{} // if set, the handler blocks on it (released by the scenario)
	ConsGate         chan struct{} // sub with a stalled consumer: it starts draining when this closes
	IgnoreCtx        bool          // sub: the producer keeps sending after its context is cancelled

	mu         sync.Mutex
	Execs      int
	Conns      []string
	HCtx       []context.Context
	HStart     []uint64
	HEnd       []uint64
	Invoked    bool
	InvokeAt   uint64
	Returned   bool
	ReturnAt   uint64
	Val        string
	RevVal     string // result of a reverse call made by the server-side handler (notifyrev)
	IVal       int64
	RetErr     error
	RetErrText string // err.Error() at the moment the call returned
	Cancelled  bool   // the caller cancelled this call's context
	CancelAt   uint64
	Client     string
}

func (e *Env) Tok(id int) *Tok {
	e.mu.Lock()
	defer e.mu.Unlock()
	t := e.Toks[id]
	if t == nil {
		t = &Tok{ID: id, Kind: "unknown"}
		e.Toks[id] = t
	}
	return t
}

func (e *Env) SortedToks() []*Tok {
	e.mu.Lock()
	defer e.mu.Unlock()
	var out []*Tok
	for _, t := range e.Toks {
		out = append(out, t)
	}
	sort.Slice(out, func(i, j int) bool { return out[i].ID < out[j].ID })
	return out
}

// Result is the value the handler produces for a token.
func Result(tok, size int) string {
	s := fmt.Sprintf("R%d:", tok)
	if size > len(s) {
		var b strings.Builder
		b.WriteString(s)
		for i := 0; b.Len() < size; i++ {
			b.WriteByte("abcdefghijklmnopqrstuvwxyz0123456789"[(i+tok)%36])
		}
		s = b.String()
	}
	return s
}

func ErrText(tok int) string { return fmt.Sprintf("E%d", tok) }

// ---- servers ------------------------------------------------------------------

type Server struct {
	Addr   string
	RPC    *jsonrpc.RPCServer
	HTTP   *http.Server
	L      *simnet.Listener
	Ctx    context.Context
	Cancel context.CancelFunc
	API    *API
}

type ServerOpts struct {
	PingInterval time.Duration // 0 = library default; <0 = disabled
	MaxReq       int64
	Reverse      bool
	Tracer       bool
	Extra        []jsonrpc.ServerOption
	Mux          func(mux *http.ServeMux)
}

func (e *Env) NewServer(addr string, o ServerOpts) *Server {
	var opts []jsonrpc.ServerOption
	if o.PingInterval > 0 {
		opts = append(opts, jsonrpc.WithServerPingInterval(o.PingInterval))
	} else if o.PingInterval < 0 {
		opts = append(opts, jsonrpc.WithServerPingInterval(0))
	}
	if o.MaxReq > 0 {
		opts = append(opts, jsonrpc.WithMaxRequestSize(o.MaxReq))
	}
	if o.Reverse {
		opts = append(opts, jsonrpc.WithReverseClient[RevClient]("R"))
	}
	if o.Tracer {
		opts = append(opts, jsonrpc.WithTracer(func(method string, params []reflect.Value, results []reflect.Value, err error) {
			e.Probe("tracer-calls")
		}))
	}
	opts = append(opts, o.Extra...)
	rpc := jsonrpc.NewServer(opts...)
	api := &API{e: e}
	rpc.Register("T", api)
	rpc.AliasMethod("T.AliasCall", "T.Call")
	rpc.AliasMethod("T.SubAlias", "T.Sub")
	mux := http.NewServeMux()
	mux.Handle("/rpc", rpc)
	if o.Mux != nil {
		o.Mux(mux)
	}
	ctx, cancel := context.WithCancel(context.Background())
	srv := &Server{Addr: addr, RPC: rpc, Ctx: ctx, Cancel: cancel, API: api}
	srv.HTTP = &http.Server{Handler: mux, BaseContext: func(net.Listener) context.Context { return ctx }}
	srv.L = e.N.Listen(addr)
	e.servers = append(e.servers, srv)
	e.S.Go("srv:"+addr, func() { _ = srv.HTTP.Serve(srv.L) })
	return srv
}

// Stop shuts the server down: listener closed, base context cancelled.
func (s *Server) Stop() {
	s.Cancel()
	_ = s.HTTP.Close()
}

// ---- helpers ---------------------------------------------------------------------

func jsonOf(v interface{}) string {
	b, _ := json.Marshal(v)
	return string(b)
}

// Sampled turns opencensus trace sampling on for the rest of this run (every
// call then carries a sampled span context in its request meta) and returns the
// function that restores the default sampler. The setting is process-global;
// runs of one worker process are sequential.
func Sampled() func() {
	trace.ApplyConfig(trace.Config{DefaultSampler: trace.AlwaysSample()})
	return func() { trace.ApplyConfig(trace.Config{DefaultSampler: trace.ProbabilitySampler(1e-4)}) }
}
