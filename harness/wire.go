package harness

import (
	"bytes"
	"encoding/json"
	"fmt"

	"verifsim/simnet"
)

// WireMsg is one WebSocket message seen by a tap, decoded as far as possible.
type WireMsg struct {
	Pipe      int
	Dir       string
	Op        byte
	Step      uint64
	Raw       []byte
	ValidJSON bool
	IsObject  bool
	Version   string
	HasID     bool
	ID        string // canonical JSON of the id
	Method    string
	HasMethod bool
	HasResult bool
	HasError  bool
	Params    json.RawMessage
	Result    json.RawMessage
}

func decodeWire(p *simnet.Pipe, dir string, m simnet.Message) WireMsg {
	wm := WireMsg{Pipe: p.ID, Dir: dir, Op: m.Op, Step: m.Step, Raw: m.Data}
	if m.Op != 1 && m.Op != 2 {
		return wm
	}
	var obj map[string]json.RawMessage
	dec := json.NewDecoder(bytes.NewReader(m.Data))
	if err := dec.Decode(&obj); err != nil {
		var any interface{}
		if json.Unmarshal(m.Data, &any) == nil {
			wm.ValidJSON = true
		}
		return wm
	}
	// exactly one JSON value (json.Encoder appends "\n")
	rest, _ := json.Marshal(nil)
	_ = rest
	var extra interface{}
	if err := dec.Decode(&extra); err == nil {
		return wm // trailing second value: not one message
	}
	wm.ValidJSON, wm.IsObject = true, true
	if v, ok := obj["jsonrpc"]; ok {
		_ = json.Unmarshal(v, &wm.Version)
	}
	if v, ok := obj["id"]; ok && string(v) != "null" {
		wm.HasID = true
		wm.ID = string(v)
	}
	if v, ok := obj["method"]; ok {
		wm.HasMethod = true
		_ = json.Unmarshal(v, &wm.Method)
	}
	if v, ok := obj["result"]; ok {
		wm.HasResult = true
		wm.Result = v
	}
	if _, ok := obj["error"]; ok {
		wm.HasError = true
	}
	wm.Params = obj["params"]
	return wm
}

// Wire returns the data messages written in one direction of a pipe.
func (w *World) Wire(p *simnet.Pipe, dir string) []WireMsg {
	w.E.N.Lock()
	msgs := append([]simnet.Message(nil), p.TapOf(dir).Msgs...)
	w.E.N.Unlock()
	var out []WireMsg
	for _, m := range msgs {
		if m.Op == 1 || m.Op == 2 {
			out = append(out, decodeWire(p, dir, m))
		}
	}
	return out
}

// CheckWireWellFormed is the black-box C14 oracle over every tap.
func (w *World) CheckWireWellFormed(oracle string) {
	for _, p := range w.WSPipes() {
		for _, dir := range []string{"c2s", "s2c"} {
			w.E.N.Lock()
			terr := p.TapOf(dir).Err
			after := p.TapOf(dir).AfterClose
			w.E.N.Unlock()
			if terr != "" {
				w.E.Violate(oracle, "pipe c%d %s: byte stream is not a sequence of WebSocket frames: %s", p.ID, dir, terr)
			}
			if after > 0 {
				w.E.Violate(oracle, "pipe c%d %s: %d data frame(s) written after the close frame", p.ID, dir, after)
			}
			for i, m := range w.Wire(p, dir) {
				if !m.ValidJSON || !m.IsObject {
					w.E.Violate(oracle, "pipe c%d %s message %d is not one JSON object: %q", p.ID, dir, i, trunc(string(m.Raw)))
					continue
				}
				if m.Version != "2.0" {
					w.E.Violate(oracle, "pipe c%d %s message %d: jsonrpc != \"2.0\": %q", p.ID, dir, i, trunc(string(m.Raw)))
				}
				if m.HasMethod {
					if m.HasResult || m.HasError {
						w.E.Violate(oracle, "pipe c%d %s message %d: request carries result/error: %q", p.ID, dir, i, trunc(string(m.Raw)))
					}
				} else if m.HasResult == m.HasError {
					w.E.Violate(oracle, "pipe c%d %s message %d: response must carry exactly one of result/error: %q", p.ID, dir, i, trunc(string(m.Raw)))
				}
			}
		}
	}
}

// CheckOneResponsePerRequest: on every WS pipe each id-bearing request has at
// most (exact=false) or exactly (exact=true) one response with that id, and no
// response carries an id that was never requested.
func (w *World) CheckOneResponsePerRequest(oracle string, exact bool) {
	for _, p := range w.WSPipes() {
		for _, dirs := range [][2]string{{"c2s", "s2c"}, {"s2c", "c2s"}} {
			reqs := map[string]int{}
			order := []string{}
			for _, m := range w.Wire(p, dirs[0]) {
				if m.HasMethod && m.HasID {
					if reqs[m.ID] == 0 {
						order = append(order, m.ID)
					}
					reqs[m.ID]++
				}
			}
			resps := map[string]int{}
			for _, m := range w.Wire(p, dirs[1]) {
				if !m.HasMethod && m.HasID {
					resps[m.ID]++
					if reqs[m.ID] == 0 {
						w.E.Violate(oracle, "pipe c%d %s: response for id %s that was never requested on this connection", p.ID, dirs[1], m.ID)
					}
				}
			}
			for _, id := range order {
				n := resps[id]
				if n > reqs[id] {
					w.E.Violate(oracle, "pipe c%d: %d responses for id %s (%d request frames)", p.ID, n, id, reqs[id])
				}
				if exact && n == 0 && p.Dead == "" {
					w.E.Violate(oracle, "pipe c%d: no response frame for request id %s", p.ID, id)
				}
			}
		}
	}
}

func (m WireMsg) String() string {
	return fmt.Sprintf("c%d/%s@%d %s", m.Pipe, m.Dir, m.Step, trunc(string(m.Raw)))
}
