package harness

import (
	"encoding/json"
	"errors"
	"fmt"
	"strconv"
	"strings"
	"sync"
	"time"

	jsonrpc "github.com/filecoin-project/go-jsonrpc"

	"verifsim/simnet"
	"verifsim/simrt"
)

// The fault family shared by C03 (no hang / no foreign result), C04
// (at-most-once) and C05 (self-healing, retry, typed error, back-off).
//
// Phases of an op:  0 = issued from the start (races the fault),
//                   1 = issued right after the first fault fired (reconnect window),
//                   2 = probe, issued after the network was healed.

var cutKinds = []string{"fin", "rst", "blackhole", "blackhole-both", "stall", "goaway"}
var cutPos = []string{"before", "header", "mid", "last", "after"}

func init() {
	register(&Scenario{Prop: "C03", Gen: func(r *simrt.RNG, tier string, v int) Plan { return genFaulty(r, tier, v, "C03") }, Run: runFaulty,
		Nontrivial: func(r *RunRes) bool { return firedAny(r) }})
	register(&Scenario{Prop: "C04", Gen: func(r *simrt.RNG, tier string, v int) Plan { return genFaulty(r, tier, v, "C04") }, Run: runFaulty,
		Nontrivial: func(r *RunRes) bool { return r.NOps >= 2 }})
	register(&Scenario{Prop: "C05", Gen: func(r *simrt.RNG, tier string, v int) Plan { return genFaulty(r, tier, v, "C05") }, Run: runFaulty,
		Nontrivial: func(r *RunRes) bool { return firedAny(r) }})
}

func firedAny(r *RunRes) bool {
	for _, v := range r.Fired {
		if v > 0 {
			return true
		}
	}
	return false
}

func genFaulty(r *simrt.RNG, tier string, variant int, prop string) Plan {
	p := Plan{Family: "faulty", Params: map[string]int64{}}
	if prop == "C04" && r.Bool(0.3) {
		p.Family = "healthy"
	}
	p.Servers = []ServerPlan{{Addr: "srv0:1", PingNs: Pick(r, []int64{0, 0, -1, int64(2e9)})}}
	cp := ClientPlan{Name: "A", Kind: "ws", Server: 0}
	cp.NoReconnect = r.Bool(0.2)
	cp.Errors = r.Bool(0.5)
	cp.Merged = r.Bool(0.25)
	// Keepalive settings must satisfy the documented constraint on both sides:
	// every ping interval in play (the client's own and the server's, whose pings
	// are what keeps the client's read deadline alive) is below timeout/2.
	srvPing := p.Servers[0].PingNs
	if srvPing == 0 {
		srvPing = int64(5e9)
	}
	switch r.Intn(3) {
	case 0: // defaults: ping 5 s, timeout 30 s
	case 1:
		if srvPing < 0 || srvPing < int64(2.5e9) {
			cp.PingNs, cp.TimeoutNs = int64(1e9), int64(5e9)
		}
	case 2:
		cp.PingNs, cp.TimeoutNs = int64(2e9), int64(12e9)
	}
	if prop == "C03" && r.Bool(0.1) {
		// own pings disabled, timeout kept: the read deadline alone must notice a
		// silent peer (an idle healthy link may then be re-dialed every timeout,
		// which is why the "no error before the fault" oracle is skipped here)
		cp.PingNs, cp.TimeoutNs = -1, int64(30e9)
		p.Params["noping"] = 1
	}
	bmin := Pick(r, []int64{int64(1e6), int64(20e6), int64(100e6), int64(500e6), int64(2e9)})
	bmax := bmin * Pick(r, []int64{1, 3, 10})
	if bmax > int64(10e9) {
		bmax = int64(10e9)
	}
	if r.Bool(0.7) {
		cp.BackoffMin, cp.BackoffMax = bmin, bmax
	}
	p.Clients = []ClientPlan{cp}
	if prop == "C04" && r.Bool(0.3) {
		p.Clients = append(p.Clients, ClientPlan{Name: "B", Kind: Pick(r, []string{"http", "custom"}), Server: 0})
	}

	tok := 1
	mk := func(phase int, client int) Op {
		op := Op{Client: client, Tok: tok, Phase: phase, Hold: phase == 0 && r.Bool(0.6)}
		tok++
		switch x := r.Intn(10); {
		case x < 5:
			op.Kind = "call"
		case x < 8:
			op.Kind = Pick(r, []string{"retry", "retry", "retry-noctx"})
		default:
			op.Kind = "notify"
		}
		if prop == "C05" && op.Kind == "retry" && r.Bool(0.2) {
			op.Kind, op.N, op.Size, op.Err = "subretry", 3, 0, false // a retry-tagged subscription
		}
		if op.Kind == "call" && r.Bool(0.15) {
			op.Kind = "call-noctx"
		} else if op.Kind == "call" && r.Bool(0.12) {
			op.Kind = "call-retryfalse" // explicitly tagged retry:"false": an untagged call in every respect
		}
		if client > 0 {
			op.Kind = Pick(r, []string{"call", "notify", "call"})
		}
		if op.Kind != "notify" {
			op.Size = Pick(r, []int{0, 10, 200, 1000, 4000, 4096, 9000})
			op.Err = r.Bool(0.15)
		}
		return op
	}
	n0 := 2 + r.Intn(5)
	for i := 0; i < n0; i++ {
		p.Ops = append(p.Ops, mk(0, r.Intn(len(p.Clients))))
	}
	n1 := 1 + r.Intn(4)
	for i := 0; i < n1; i++ {
		p.Ops = append(p.Ops, mk(1, 0))
	}
	if prop != "C04" && !cp.NoReconnect && r.Bool(0.35) {
		// calls that race with the *end* of the reconnect window: issued a few
		// scheduler steps after the upgrade response of the redial reached the client
		n5 := 1 + r.Intn(3)
		for i := 0; i < n5; i++ {
			op := mk(5, 0)
			op.Group = r.Intn(24) // number of scheduler yields after the upgrade response
			p.Ops = append(p.Ops, op)
		}
	}
	for i := 0; i < 2; i++ {
		op := mk(2, 0)
		op.Kind, op.Err, op.Size = "call", false, 10
		p.Ops = append(p.Ops, op)
	}

	if prop == "C04" && len(p.Clients) > 1 && p.Clients[1].Kind == "http" && r.Bool(0.7) {
		// a chain of sequential requests on a keep-alive HTTP client, and a cut of
		// its connection while a request is being served (after k yields)
		p.Clients[1].KeepAlive = true
		p.Family = "faulty"
		nchain := 3 + r.Intn(3)
		for i := 0; i < nchain; i++ {
			op := Op{Client: 1, Tok: tok, Phase: 4, Kind: Pick(r, []string{"call", "call", "notify"}), Hold: i > 0 && r.Bool(0.6)}
			tok++
			p.Ops = append(p.Ops, op)
		}
		p.Faults = append(p.Faults, Fault{Kind: "http-cut", Dir: Pick(r, []string{"fin", "rst"}), Frame: -1, Pipe: -3, Phase: 3 + r.Intn(40)})
	}
	if p.Family == "healthy" {
		return p
	}
	// the fault: frame-relative cut on the client's first connection
	f := Fault{Client: 0, Pipe: 0}
	f.Kind = Pick(r, cutKinds)
	f.Dir = Pick(r, []string{"c2s", "s2c", "s2c"})
	f.Frame = r.Intn(10)
	f.Pos = Pick(r, cutPos)
	if f.Kind == "stall" {
		f.DurNs = Pick(r, []int64{int64(100e6), int64(3e9), int64(20e9), int64(90e9)})
	}
	if variant >= 0 {
		// thorough sweep: enumerate kind x dir x pos x frame systematically
		v := variant
		f.Kind = cutKinds[v%len(cutKinds)]
		v /= len(cutKinds)
		f.Dir = []string{"c2s", "s2c"}[v%2]
		v /= 2
		f.Pos = cutPos[v%len(cutPos)]
		v /= len(cutPos)
		f.Frame = v % 12
	}
	if f.Kind != "stall" && (cp.PingNs < 0) {
		// keepalive is needed to notice a silent peer; keep it on
	}
	p.Faults = append(p.Faults, f)
	// outage shape: failed redials before the server is reachable again
	switch r.Intn(5) {
	case 0:
		p.Faults = append(p.Faults, Fault{Kind: "refuse", N: 1 + r.Intn(4), Frame: -1})
	case 1:
		p.Faults = append(p.Faults, Fault{Kind: "hang", N: 1, Frame: -1})
	case 2:
		bm := cp.BackoffMax
		if bm == 0 {
			bm = int64(5e9)
		}
		d := bm * Pick(r, []int64{2, 10, 40, 150}) // up to ~150 consecutive failed redials
		if d > int64(200e9) {
			d = int64(200e9)
		}
		p.Faults = append(p.Faults, Fault{Kind: "down", DurNs: d, Frame: -1})
	}
	// second fault during / right after the reconnect
	if r.Bool(0.25) {
		f2 := Fault{Kind: Pick(r, []string{"fin", "rst", "blackhole-both"}), Dir: Pick(r, []string{"c2s", "s2c"}), Pipe: -2, Phase: 1}
		if r.Bool(0.5) {
			f2.Frame, f2.Pos = -1, "handshake"
			f2.N = 10 + r.Intn(150) // byte offset inside the upgrade exchange
		} else {
			f2.Frame, f2.Pos = r.Intn(4), Pick(r, cutPos)
		}
		p.Faults = append(p.Faults, f2)
	}
	// a third outage on the connection after that (state accumulated across reconnects)
	if r.Bool(0.2) {
		f3 := Fault{Kind: Pick(r, []string{"fin", "rst"}), Dir: Pick(r, []string{"c2s", "s2c"}), Pipe: -2, Phase: 2,
			Frame: r.Intn(4), Pos: Pick(r, cutPos)}
		if len(p.Faults) == 0 || p.Faults[len(p.Faults)-1].Pipe != -2 {
			p.Faults = append(p.Faults, Fault{Kind: "rst", Dir: "s2c", Pipe: -2, Phase: 1, Frame: r.Intn(4), Pos: "after"})
		}
		p.Faults = append(p.Faults, f3)
	}
	p.Params["settle1_ms"] = Pick(r, []int64{50, 500, 5000, 40000, 70000})
	return p
}

func runFaulty(e *Env, p *Plan) {
	prop := p.Prop
	faultC := make(chan struct{})
	var faultStep uint64
	fired := false
	var fmu sync.Mutex
	e.N.FaultHook = func(kind string, pipe int) {
		fmu.Lock()
		defer fmu.Unlock()
		if !fired {
			fired = true
			faultStep = e.S.Step()
			close(faultC)
		}
	}
	isFired := func() bool { fmu.Lock(); defer fmu.Unlock(); return fired }
	redialC, healedC := make(chan struct{}), make(chan struct{})
	var redialOnce sync.Once
	e.N.DeliverHook = func(pipe int, ws bool, dir string, off int64) {
		if ws && pipe > 0 && dir == "s2c" {
			redialOnce.Do(func() { close(redialC) })
		}
	}
	w, err := e.Build(p)
	if err != nil {
		e.Violate("setup", "building the world failed on a healthy network: %v", err)
		return
	}
	addr := p.Servers[0].Addr
	if prop == "C05" && !p.Clients[0].NoReconnect {
		// redial spacing as a run-time invariant: a busy loop never lets the clock
		// advance, so it must be caught while it happens, not afterwards
		min := dur(p.Clients[0].BackoffMin)
		if min == 0 {
			min = 100 * time.Millisecond
		}
		e.Invariant("C05.d-backoff-spacing", func() string {
			d := e.N.Dials()
			// any two consecutive redials: after a successful dial the next one can only
			// follow a new loss plus at least the minimum back-off
			if k := len(d); k >= 3 {
				if gap := d[k-1].At - d[k-2].At; gap < min {
					return fmt.Sprintf("redial attempts %d and %d are %v apart, below the configured minimum back-off %v (busy loop after %d consecutive failures)", k-2, k-1, gap, min, k-2)
				}
			}
			return ""
		})
	}
	var mainFault *Fault
	for i := range p.Faults {
		f := &p.Faults[i]
		switch {
		case f.Kind == "refuse":
			e.N.RefuseNext(addr, f.N)
		case f.Kind == "hang":
			e.N.HangNext(addr, f.N)
		case f.Kind == "http-cut":
			f := *f
			e.S.Go("http-cutter", func() {
				for i := 0; i < f.Phase; i++ {
					simrt.Yield("http-cut-delay")
				}
				for _, pipe := range e.N.Pipes() {
					if !pipe.WS && pipe.Dead == "" {
						e.Probe("http-connection-cut")
						e.N.Inject(pipe.ID, f.Dir, "both", 0)
					}
				}
			})
		case f.Kind == "down":
			// applied when the main fault fires (see below)
		case f.Pipe == -2:
			c := simnet.Cut{Dir: f.Dir, Frame: f.Frame, Pos: f.Pos, Kind: f.Kind}
			if f.Pos == "handshake" {
				c.Frame, c.Off = -1, int64(f.N)
			}
			skip := 0
			if f.Phase >= 2 {
				skip = f.Phase - 1
			}
			e.N.PlanCutNextK(addr, skip, c)
		default:
			if mainFault == nil {
				mainFault = f
			}
			e.N.PlanCut(f.Pipe, simnet.Cut{Dir: f.Dir, Frame: f.Frame, Pos: f.Pos, Kind: f.Kind, Dur: dur(f.DurNs)})
		}
	}
	for i := range p.Faults {
		if f := p.Faults[i]; f.Kind == "down" {
			d := dur(f.DurNs)
			e.S.Go("outage", func() {
				<-faultC
				e.N.SetDown(addr, true)
				time.Sleep(d)
				e.N.SetDown(addr, false)
			})
		}
	}

	var chain []Op
	for _, op := range p.Ops {
		if op.Phase == 4 {
			w.Register(op)
			chain = append(chain, op)
		}
	}
	if len(chain) > 0 {
		e.S.Go("http-chain", func() {
			for _, op := range chain {
				simrt.Yield("chain-next")
				w.Exec(op, nil)
			}
		})
	}
	for _, op := range p.Ops {
		op := op
		switch op.Phase {
		case 0:
			w.Start(op, nil)
		case 1:
			w.Register(op)
			e.S.Go("gate-"+strconv.Itoa(op.Tok), func() {
				<-faultC
				simrt.Yield("window-wake")
				e.Probe("window-call-issued")
				w.Start(op, nil)
			})
		case 5:
			w.Register(op)
			e.S.Go("gate-"+strconv.Itoa(op.Tok), func() {
				select {
				case <-redialC:
					for i := 0; i < op.Group; i++ {
						simrt.Yield("redial-race-delay")
					}
					e.Probe("call-racing-reconnect-completion")
				case <-healedC: // no redial happened (no-op fault, exhausted plan): issue it anyway
				}
				w.Start(op, nil)
			})
		}
	}
	if !e.S.Settle(dur(p.Param("settle1_ms", 500) * 1e6)) {
		return
	}
	if mainFault != nil && !isFired() {
		// the planned frame was never reached: apply the fault now
		e.Probe("fault-applied-at-quiescence")
		e.N.Inject(mainFault.Pipe, mainFault.Kind, mainFault.Dir, dur(mainFault.DurNs))
	}
	if mainFault == nil && !isFired() {
		fmu.Lock()
		close(faultC) // healthy family / minimised plan without faults: release the gates
		fired = true
		faultStep = ^uint64(0)
		fmu.Unlock()
	}
	if !e.S.Settle(dur(p.Param("settle1_ms", 500) * 1e6)) {
		return
	}
	e.N.Heal()
	healStep := e.S.Step()
	if !e.S.Settle(time.Minute) {
		return
	}
	close(healedC)
	post := 2 * time.Minute
	if e.N.Fired["blackhole"] > 0 {
		post = 8 * time.Minute // a one-way black hole is only noticed when the sender's TCP gives up
	}
	if !e.S.Settle(post) {
		return
	}
	for _, op := range p.Ops {
		if op.Phase == 2 {
			w.Start(op, nil)
		}
	}
	stableFrom := e.S.Now()
	if !e.S.Settle(H) {
		return
	}
	_ = healStep
	// a last probe after the long idle tail: the healed link must still be there
	lateTok := 9000
	w.Start(Op{Kind: "call", Client: 0, Tok: lateTok, Size: 10, Phase: 3}, nil)
	if !e.S.Settle(time.Minute) {
		return
	}
	if prop == "C05" && !p.Clients[0].NoReconnect {
		for i, d := range e.N.Dials() {
			if i > 0 && d.At > stableFrom {
				e.Violate("C05.a-heals-itself", "the network has been healthy since %v and the client had reconnected, yet it dialed again at %v (the re-established link does not stay up)", stableFrom, d.At)
				break
			}
		}
		if t := e.Tok(lateTok); t.Returned && t.RetErr != nil {
			e.Violate("C05.a-heals-itself", "a call issued %v after the network healed failed: %v", H, t.RetErr)
		}
	}

	// ---- oracles ----------------------------------------------------------------
	c0 := p.Clients[0]
	switch prop {
	case "C03":
		w.CheckAllReturned("C03.hang")
		w.CheckOwnResults("C03.foreign-result", true)
		for _, t := range e.SortedToks() {
			if p.Param("noping", 0) > 0 {
				break
			}
			if t.Returned && t.ReturnAt < faultStep && t.Client == "A" && t.RetErr != nil && isConnErr(t.RetErr) {
				e.Violate("C03.healthy-call-failed", "tok=%d returned a connection error at step %d, before any fault fired (step %d): %v", t.ID, t.ReturnAt, faultStep, t.RetErr)
			}
		}
	case "C04":
		checkAtMostOnce(w, p)
	case "C05":
		w.CheckAllReturned("C05.hang")
		w.CheckOwnResults("C05.foreign-result", true)
		checkHealing(w, p, c0, faultStep)
	}
	w.Teardown()
}

func checkAtMostOnce(w *World, p *Plan) {
	e := w.E
	for _, t := range e.SortedToks() {
		if !t.Invoked {
			continue
		}
		switch t.Kind {
		case "call", "alias", "call-noctx", "call-retryfalse":
			if t.Execs > 1 {
				e.Violate("C04.at-most-once", "untagged call tok=%d was executed %d times by the server", t.ID, t.Execs)
			}
			if t.Returned && (t.RetErr == nil || t.RetErr.Error() == ErrText(t.ID)) && t.Execs != 1 {
				e.Violate("C04.exactly-once-on-answer", "tok=%d: the caller received the handler's answer (err=%v) but the handler ran %d times", t.ID, t.RetErr, t.Execs)
			}
		case "notify":
			if t.Execs > 1 {
				e.Violate("C04.at-most-once", "notification tok=%d was executed %d times", t.ID, t.Execs)
			}
			if p.Family == "healthy" && t.Returned && t.Execs != 1 {
				e.Violate("C04.notify-once-healthy", "notification tok=%d on a healthy connection ran %d times", t.ID, t.Execs)
			}
			if p.Family == "healthy" && t.Returned && t.RetErr != nil {
				e.Violate("C04.notify-once-healthy", "notification tok=%d on a healthy connection failed locally: %v", t.ID, t.RetErr)
			}
		case "retry", "retry-noctx", "subretry":
			if t.Execs > 1 {
				e.Probe("retry-tagged-call-executed-more-than-once")
			}
		}
	}
	// wire: an untagged request id is written at most once; notifications have no id and get no response
	retryTok := map[int]bool{}
	for _, op := range p.Ops {
		if op.Kind == "retry" || op.Kind == "retry-noctx" || op.Kind == "subretry" {
			retryTok[op.Tok] = true
		}
	}
	seen := map[string]int{}
	for _, pipe := range w.WSPipes() {
		for _, m := range w.Wire(pipe, "c2s") {
			if !m.HasMethod {
				continue
			}
			tok := tokOfParams(m.Params)
			if m.Method == "T.Notify" {
				if m.HasID {
					e.Violate("C04.notify-has-no-id", "notification frame carries an id: %s", m)
				}
				continue
			}
			if m.HasID && (m.Method == "T.Call" || m.Method == "T.AliasCall") && !retryTok[tok] {
				k := fmt.Sprintf("%s/%d", m.ID, tok)
				seen[k]++
				if seen[k] > 1 {
					e.Violate("C04.no-resend", "request id %s (tok %d, untagged) was written %d times: the library re-sent it on its own", m.ID, tok, seen[k])
				}
			}
		}
		// a response must answer an id-bearing request (one-response-per-id covers multiplicity)
	}
	w.CheckOneResponsePerRequest("C04.response-multiplicity", false)
	if p.Family == "healthy" {
		w.CheckAllReturned("C04.hang-healthy")
		w.CheckOwnResults("C04.own-result-healthy", false)
	}
}

func tokOfParams(raw []byte) int {
	var ps []interface{}
	if json.Unmarshal(raw, &ps) != nil || len(ps) == 0 {
		return -1
	}
	if f, ok := ps[0].(float64); ok {
		return int(f)
	}
	return -1
}

func checkHealing(w *World, p *Plan, c0 ClientPlan, faultStep uint64) {
	e := w.E
	dials := e.N.Dials()
	// probes = phase 2 ops
	for _, op := range p.Ops {
		t := e.Tok(op.Tok)
		if !t.Returned {
			continue
		}
		switch {
		case op.Phase == 2 && !c0.NoReconnect:
			if t.RetErr != nil {
				e.Violate("C05.a-heals-itself", "probe tok=%d issued after the network healed failed on a reconnecting client: %v", t.ID, t.RetErr)
			}
		case op.Phase == 2 && c0.NoReconnect:
			// may fail (if the connection was lost) but must not block: covered by the hang oracle
		}
		if (op.Kind == "retry" || op.Kind == "retry-noctx" || op.Kind == "subretry") && !c0.NoReconnect {
			if t.RetErr != nil && isConnErr(t.RetErr) {
				e.Violate("C05.b-retry-rides-out", "retry-tagged tok=%d returned the connection error instead of a genuine result: %v", t.ID, t.RetErr)
			}
		}
		if (op.Kind == "call" || op.Kind == "call-noctx" || op.Kind == "call-retryfalse") && t.RetErr != nil && op.Client == 0 {
			// the connection error proper (the library's "websocket connection closed"
			// response); errors of a closed / dead client object are not constrained
			var ce *jsonrpc.RPCConnectionError
			var je *jsonrpc.JSONRPCError
			typed := errors.As(t.RetErr, &ce)
			generic := errors.As(t.RetErr, &je) && strings.Contains(je.Message, "websocket connection closed")
			if c0.Errors && generic {
				e.Violate("C05.c-typed-error", "tok=%d failed because of the outage; error mapping is on but the error is the generic RPC error, not *RPCConnectionError: %T %v", t.ID, t.RetErr, t.RetErr)
			}
			if !c0.Errors && typed {
				e.Violate("C05.c-typed-error", "tok=%d: error mapping is off but the error is the typed connection error", t.ID)
			}
			if typed || generic {
				e.Probe("untagged-call-got-connection-error")
			}
		}
	}
	// redials: everything after the first (initial) dial
	var re []simnet.DialEvent
	for i, d := range dials {
		if i > 0 {
			re = append(re, d)
		}
	}
	if c0.NoReconnect {
		if len(re) > 0 {
			e.Violate("C05.e-no-reconnect-never-redials", "a no-reconnect client dialed again (%d times), first at %v", len(re), re[0].At)
		}
		return
	}
	min, max := dur(c0.BackoffMin), dur(c0.BackoffMax)
	if min == 0 {
		min, max = 100*time.Millisecond, 5*time.Second
	}
	// (d) spacing between consecutive attempts of one outage: >= min apart.
	for i := 1; i < len(re); i++ {
		gap := re[i].At - re[i-1].At
		if gap < min {
			e.Violate("C05.d-backoff-spacing", "redial attempts %d and %d are %v apart, below the configured minimum back-off %v (busy loop)", i-1, i, gap, min)
		}
		if re[i-1].Outcome == "refused" && gap > max+max/2+time.Second {
			e.Violate("C05.d-backoff-spacing", "redial attempts %d and %d are %v apart, above the configured maximum back-off %v", i-1, i, gap, max)
		}
	}
	if faultStep != ^uint64(0) && len(re) == 0 && e.N.Fired["fin"]+e.N.Fired["rst"]+e.N.Fired["blackhole-both"] > 0 {
		e.Violate("C05.a-heals-itself", "the connection was lost (fault fired at step %d) but the client never dialed again", faultStep)
	}
}
