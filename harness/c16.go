package harness

import (
	"strings"
	"sync"
	"time"

	"verifsim/simnet"
	"verifsim/simrt"
)

// C16 — reverse calls reach the calling client and fail, not block, once it is gone.

func init() {
	register(&Scenario{Prop: "C16", Gen: genC16, Run: runC16,
		Nontrivial: func(r *RunRes) bool { return r.Probes["reverse-calls-made"] > 1 }})
}

func genC16(r *simrt.RNG, tier string, variant int) Plan {
	p := Plan{Family: "healthy", Params: map[string]int64{}}
	if r.Bool(0.015) {
		// many forward calls of one connection pending on their reverse calls at the
		// same time: the client-side handlers answer only when all of them have arrived
		p.Family = "many-pending"
		nb := Pick(r, []int{40, 70, 100, 130})
		p.Servers = []ServerPlan{{Addr: "srv0:1", PingNs: -1, Reverse: true}}
		p.Clients = []ClientPlan{{Name: "A", Kind: "ws", Server: 0, Reverse: true}}
		for i := 0; i < nb; i++ {
			p.Ops = append(p.Ops, Op{Kind: "rev", Client: 0, Tok: i + 1})
		}
		p.Params["rev_barrier"] = int64(nb)
		p.Params["coarse"] = 1
		p.Params["max_steps"] = int64(nb)*1500 + 100000
		return p
	}
	withOpt := !r.Bool(0.12)
	p.Servers = []ServerPlan{{Addr: "srv0:1", PingNs: Pick(r, []int64{0, -1}), Reverse: withOpt}}
	nc := 2 + r.Intn(3)
	for i := 0; i < nc; i++ {
		kind := "ws"
		if i == nc-1 && r.Bool(0.3) {
			kind = Pick(r, []string{"http", "custom"})
		}
		p.Clients = append(p.Clients, ClientPlan{Name: string(rune('A' + i)), Kind: kind, Server: 0, Reverse: kind == "ws",
			NoReconnect: r.Bool(0.5), BackoffMin: int64(5e6), BackoffMax: int64(50e6)})
	}
	tok := 1
	for ci := range p.Clients {
		n := 1 + r.Intn(4)
		for i := 0; i < n; i++ {
			op := Op{Kind: "rev", Client: ci, Tok: tok, N: r.Intn(3), Hold: r.Bool(0.5), IgnoreCtx: r.Bool(0.3)}
			if r.Bool(0.2) {
				op.Kind = "call"
			} else if r.Bool(0.2) {
				op.Kind, op.N = "revsub", Pick(r, []int{0, 2, 10, 30}) // the server subscribes to a stream of the client
			} else if r.Bool(0.15) {
				op.Kind, op.N = "notifyrev", 0 // a notification whose handler calls back
			} else if r.Bool(0.15) {
				// an ordinary (forward) subscription next to the reverse traffic: streams
				// then flow in both directions on one connection, with coinciding ids
				op.Kind, op.N, op.Hold, op.IgnoreCtx = "sub", Pick(r, []int{2, 10, 30}), false, false
			}
			p.Ops = append(p.Ops, op)
			tok++
		}
	}
	if r.Bool(0.5) {
		p.Family = "faulty"
		// more reverse-calling forward calls on client A after the fault (on the
		// re-established connection, where the server's reverse ids start again)
		p.Clients[0].NoReconnect = false
		for i := 0; i < 1+r.Intn(3); i++ {
			p.Ops = append(p.Ops, Op{Kind: "rev", Client: 0, Tok: tok, N: r.Intn(2), Hold: r.Bool(0.3), Phase: 1, IgnoreCtx: r.Bool(0.3)})
			tok++
		}
		if r.Bool(0.5) {
			// a reverse stream whose client-side producer outlives the old connection,
			// and a new reverse stream on the re-established one
			p.Ops = append(p.Ops, Op{Kind: "revsub", Client: 0, Tok: tok, N: 12, Hold: true})
			tok++
			p.Ops = append(p.Ops, Op{Kind: "revsub", Client: 0, Tok: tok, N: Pick(r, []int{3, 10}), Phase: 1, Hold: r.Bool(0.7)})
			tok++
		}
		if r.Bool(0.4) {
			p.Params["late_panic"] = 1
		}
		// black holes are excluded: a server without a read timeout cannot notice a
		// silent peer, so for the server that connection is not "gone"
		p.Faults = []Fault{{Kind: Pick(r, []string{"fin", "rst"}), Pipe: 0, Dir: Pick(r, []string{"c2s", "s2c"}),
			Frame: r.Intn(10), Pos: Pick(r, cutPos)}}
	}
	return p
}

func runC16(e *Env, p *Plan) {
	w, err := e.Build(p)
	if err != nil {
		e.Violate("setup", "building the world failed on a healthy network: %v", err)
		return
	}
	if nb := int(p.Param("rev_barrier", 0)); nb > 0 {
		e.BarrierN = nb
		e.Probe("many-reverse-calls-pending-at-once")
	}
	faultC := make(chan struct{})
	var once sync.Once
	e.N.FaultHook = func(string, int) { once.Do(func() { close(faultC) }) }
	for _, f := range p.Faults {
		e.N.PlanCut(f.Pipe, simnet.Cut{Dir: f.Dir, Frame: f.Frame, Pos: f.Pos, Kind: f.Kind})
	}
	var lateGates, lateGates2 []chan struct{}
	for _, op := range p.Ops {
		op := op
		if op.Phase == 0 {
			if len(p.Faults) > 0 && (op.Kind == "rev" && op.Tok%2 == 1 || op.Kind == "revsub" && op.Hold) && op.Client == 0 {
				if op.Kind == "rev" && p.Param("late_panic", 0) > 0 && op.Tok%4 == 1 {
					// ... and then panics: its error reply belongs to the old connection too
					op.Panic = "string"
					e.Probe("old-reverse-handler-panics-after-reconnect")
				}
				// this call's client-side handler finishes only after the reconnect,
				// while later reverse calls are in flight on the new connection
				g := make(chan struct{})
				lateGates = append(lateGates, g)
				t := w.Register(op)
				t.mu.Lock()
				t.Gate = g
				t.mu.Unlock()
				w.Start(op, nil)
				t.mu.Lock()
				t.Gate = g
				t.mu.Unlock()
				continue
			}
			w.Start(op, nil)
			continue
		}
		tk := w.Register(op)
		if op.Kind == "rev" && op.Hold {
			// its client-side handler stays in flight on the new connection until
			// the old connection's handlers have finished (or failed)
			g := make(chan struct{})
			lateGates2 = append(lateGates2, g)
			tk.mu.Lock()
			tk.Gate = g
			tk.mu.Unlock()
		}
		if op.Kind == "revsub" && op.Hold {
			// its producer also pauses after the first value, so that the stream is
			// still open when the old connection's producers resume
			g := make(chan struct{})
			lateGates = append(lateGates, g)
			tk.mu.Lock()
			tk.Gate = g
			tk.mu.Unlock()
		}
		e.S.Go("gate-"+itoa(op.Tok), func() {
			<-faultC
			// wait until the client is connected again (a call in the window fails fast)
			for i := 0; i < 40; i++ {
				simrt.Yield("after-fault")
			}
			time.Sleep(300 * time.Millisecond)
			simrt.Yield("after-fault-wake") // the gates wake at the same instant: the scheduler orders them
			e.Probe("reverse-call-after-reconnect")
			w.Exec(op, nil)
		})
	}
	if len(lateGates)+len(lateGates2) > 0 {
		e.S.Go("late-release", func() {
			<-faultC
			for i := 0; i < 80; i++ {
				simrt.Yield("late-release-delay")
			}
			time.Sleep(400 * time.Millisecond)
			simrt.Yield("late-release-wake")
			if len(lateGates) > 0 {
				e.Probe("old-reverse-handler-finishes-after-reconnect")
			}
			for _, g := range lateGates {
				close(g)
			}
			for i := 0; i < 30; i++ {
				simrt.Yield("late-release-delay2")
			}
			for _, g := range lateGates2 {
				close(g)
			}
		})
	}
	if !e.S.Settle(5 * time.Second) {
		return
	}
	once.Do(func() { close(faultC) })
	e.N.Heal()
	if !e.S.Settle(H) {
		return
	}
	faultyConn := map[string]bool{}
	if len(p.Faults) > 0 {
		faultyConn["A"] = true
	}
	for _, op := range p.Ops {
		if op.Kind == "notifyrev" && op.Client < len(p.Clients) {
			cp := p.Clients[op.Client]
			t := e.Tok(op.Tok)
			t.mu.Lock()
			started, ended, val := len(t.HCtx), len(t.HEnd), t.RevVal
			t.mu.Unlock()
			if started > ended {
				e.Violate("C16.reverse-call-fails-not-blocks", "the notification handler of tok=%d (client %s) is still blocked in its reverse call", t.ID, cp.Name)
			} else if started > 0 && cp.Kind == "ws" && p.Servers[0].Reverse && !faultyConn[cp.Name] && val != cp.Name+"/"+itoa(op.Tok) {
				e.Violate("C16.reverse-identity", "reverse call from the notification handler of tok=%d on healthy client %s returned %q", t.ID, cp.Name, val)
			}
			continue
		}
		if op.Kind == "revsub" && op.Client < len(p.Clients) {
			cp := p.Clients[op.Client]
			t := e.Tok(op.Tok)
			t.mu.Lock()
			started, ended := len(t.HCtx), len(t.HEnd)
			ret, val, rerr := t.Returned, t.Val, t.RetErr
			t.mu.Unlock()
			e.Probe("reverse-subscriptions")
			switch {
			case started > ended:
				e.Violate("C16.reverse-call-fails-not-blocks", "the server handler of tok=%d (client %s) is still blocked on its reverse subscription", t.ID, cp.Name)
			case !ret:
				e.Violate("C16.hang", "forward call tok=%d (reverse subscription) on %s never returned", t.ID, cp.Name)
			case rerr != nil:
				if !(faultyConn[cp.Name] && (isConnErr(rerr) || strings.Contains(rerr.Error(), "reverr"))) {
					e.Violate("C16.reverse-identity", "reverse subscription tok=%d on healthy client %s failed: %v", t.ID, cp.Name, rerr)
				}
			case cp.Kind != "ws" || !p.Servers[0].Reverse:
				if val != "norev" {
					e.Violate("C16.absent-without-ws-or-option", "tok=%d over %s: a reverse client was present: %q", t.ID, cp.Kind, val)
				}
			default:
				parts := strings.SplitN(val, ":", 2)
				if len(parts) != 2 || parts[1] != "" {
					e.Violate("C16.reverse-identity", "reverse subscription tok=%d of client %s: the server received a value this stream's handler never sent: %q (another stream's values arrived on it)", t.ID, cp.Name, val)
				} else if !faultyConn[cp.Name] && parts[0] != itoa(op.N) {
					e.Violate("C16.reverse-identity", "reverse subscription tok=%d on healthy client %s: the server received %s of %d values", t.ID, cp.Name, parts[0], op.N)
				}
			}
			continue
		}
		if op.Kind == "sub" && op.Client < len(p.Clients) {
			cp := p.Clients[op.Client]
			t, st := e.Tok(op.Tok), e.Sub(op.Tok)
			if cp.Kind == "ws" && !faultyConn[cp.Name] && t.Returned && t.RetErr == nil && (len(st.Received) != op.N || !st.Closed) {
				e.Violate("C16.forward-calls-intact", "forward subscription tok=%d on healthy client %s, sharing the connection with reverse traffic: received %d of %d values, closed=%v", op.Tok, cp.Name, len(st.Received), op.N, st.Closed)
			}
			continue
		}
		if op.Kind != "rev" || op.Client >= len(p.Clients) {
			continue
		}
		cp := p.Clients[op.Client]
		t := e.Tok(op.Tok)
		t.mu.Lock()
		started, ended := len(t.HCtx), len(t.HEnd)
		ret, val, rerr := t.Returned, t.Val, t.RetErr
		t.mu.Unlock()
		if started > ended {
			e.Violate("C16.reverse-call-fails-not-blocks", "the server handler of tok=%d (client %s) is still blocked in its reverse call %v after the connection state settled (client connection faulted: %v)", t.ID, cp.Name, H, faultyConn[cp.Name])
			continue
		}
		if !ret {
			e.Violate("C16.hang", "forward call tok=%d on %s never returned", t.ID, cp.Name)
			continue
		}
		if rerr != nil {
			t.mu.Lock()
			lastConn := ""
			if len(t.Conns) > 0 {
				lastConn = t.Conns[len(t.Conns)-1]
			}
			t.mu.Unlock()
			if lastConn != "" && lastConn != "c"+itoa(w.Clients[op.Client].FirstPipe) && t.Panic == "" {
				// its server handler ran on a connection made after the (only) fault: that
				// link is healthy for good, the reverse calls made from there have no excuse
				e.Violate("C16.reverse-identity", "tok=%d on client %s: the server handler ran on the re-established, healthy connection %s, yet the call failed: %v", t.ID, cp.Name, lastConn, rerr)
				continue
			}
			if t.Panic == "" && strings.Contains(rerr.Error(), "panic") {
				e.Violate("C16.reverse-identity", "tok=%d on client %s failed with a panic error although none of its handlers panics - another call's failure reached it: %v", t.ID, cp.Name, rerr)
				continue
			}
			if faultyConn[cp.Name] && (isConnErr(rerr) || strings.Contains(rerr.Error(), "reverr")) {
				continue
			}
			e.Violate("C16.reverse-identity", "tok=%d on healthy client %s failed: %v", t.ID, cp.Name, rerr)
			continue
		}
		if cp.Kind != "ws" || !p.Servers[0].Reverse {
			if val != "norev" {
				e.Violate("C16.absent-without-ws-or-option", "tok=%d over %s (server option %v): a reverse client was present: %q", t.ID, cp.Kind, p.Servers[0].Reverse, val)
			}
			continue
		}
		parts := strings.Split(val, ",")
		if len(parts) != 1+op.N {
			e.Violate("C16.reverse-identity", "tok=%d: expected %d reverse results, got %q", t.ID, 1+op.N, val)
		}
		for _, part := range parts {
			e.Probe("reverse-calls-made")
			if part != cp.Name+"/"+itoa(op.Tok) {
				e.Violate("C16.reverse-identity", "tok=%d issued by client %s: a reverse call returned %q, want %q (reached another client or another call)", t.ID, cp.Name, part, cp.Name+"/"+itoa(op.Tok))
			}
		}
	}
	w.CheckOwnResults("C16.forward-calls-intact", true)
	w.CheckWireWellFormed("C16.wire")
	w.Teardown()
}
