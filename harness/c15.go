package harness

import (
	"bytes"
	"context"
	"regexp"
	"runtime/pprof"
	"strconv"
	"strings"
	"time"

	"verifsim/simrt"
)

// C15 — when a connection ends the server cancels its handlers and lets go of it.

func init() {
	register(&Scenario{Prop: "C15", Gen: genC15, Run: runC15,
		Nontrivial: func(r *RunRes) bool { return r.Probes["handlers-in-progress-at-end"] > 0 }})
}

var endCauses = []string{"close", "fin", "rst", "srvcancel"}

func genC15(r *simrt.RNG, tier string, variant int) Plan {
	p := Plan{Family: "faulty", Params: map[string]int64{}}
	floodP := 0.002 // one such run costs as much as a thousand ordinary ones
	if tier == "thorough" {
		floodP = 0.004
	}
	if r.Bool(floodP) {
		// a notification handler subscribed to a stream of its client and fell
		// thousands of values behind - beyond any plausible internal bound - when the
		// connection ends: its context is cancelled and nothing is retained all the same
		p.Family = "revflood"
		nv := 11000
		p.Servers = []ServerPlan{{Addr: "srv0:1", PingNs: -1, Reverse: true}}
		p.Clients = []ClientPlan{{Name: "A", Kind: "ws", Server: 0, Reverse: true, NoReconnect: true}}
		p.Ops = []Op{{Kind: "notifyrevflood", Client: 0, Tok: 1, N: nv}, {Kind: "call", Client: 0, Tok: 2, Size: 100}}
		p.Faults = []Fault{{Kind: Pick(r, []string{"close", "fin", "rst"}), Client: 0, Pipe: 0, Dir: "c2s", Frame: -1}}
		p.Params["max_steps"] = int64(nv)*90 + 100000
		p.Params["coarse"] = 1
		p.Params["react_ms"] = 0
		return p
	}
	p.Servers = []ServerPlan{{Addr: "srv0:1", PingNs: Pick(r, []int64{0, -1, int64(1e9)}), Reverse: r.Bool(0.5)}}
	nc := 1 + r.Intn(3)
	for i := 0; i < nc; i++ {
		p.Clients = append(p.Clients, ClientPlan{Name: string(rune('A' + i)), Kind: "ws", Server: 0, Reverse: p.Servers[0].Reverse,
			NoReconnect: true})
	}
	tok := 1
	for ci := 0; ci < nc; ci++ {
		n := 1 + r.Intn(4)
		for i := 0; i < n; i++ {
			op := Op{Client: ci, Tok: tok}
			tok++
			switch x := r.Intn(10); {
			case x < 4:
				op.Kind = "call"
				op.Size = Pick(r, []int{0, 100, 5000, 20500})
				op.Err = r.Bool(0.1)
				if r.Bool(0.3) {
					// an un-gated call whose caller cancels it around the time it completes:
					// the cancel may reach the server after the call has finished
					op.Kind = "ctx"
					op.Cancel = 1 + Pick(r, []int{0, 1, 3, 8, 20})
				}
			case x < 6:
				op.Kind = "notify"
			case x < 8:
				op.Kind = "sub"
				op.N = Pick(r, []int{3, 50, 400})
				op.GapNs = int64(1e9)
				op.Hold = r.Bool(0.4) // the handler returns its channel only after the connection ended
			default:
				op.Kind = "rev"
				op.N = r.Intn(2)
				if !p.Servers[0].Reverse {
					op.Kind = "call"
				}
			}
			p.Ops = append(p.Ops, op)
		}
	}
	cause := Pick(r, endCauses)
	if variant >= 0 {
		cause = endCauses[variant%len(endCauses)]
	}
	p.Faults = []Fault{{Kind: cause, Client: 0, Pipe: 0, Dir: Pick(r, []string{"c2s", "s2c"}), Frame: -1, Phase: Pick(r, []int{0, 2, 10, 50})}}
	if r.Bool(0.3) {
		p.Params["late_big"] = Pick(r, []int64{5000, 20000, 70000})
		p.Params["late_big_yields"] = int64(1 + r.Intn(12))
	}
	if r.Bool(0.25) {
		// the peer stops reading: server writes on connection 0 block (full send
		// buffer) from now on; the connection must still be let go of
		p.Params["wstall"] = 1
		if p.Servers[0].Reverse && r.Bool(0.7) {
			// ... and a handler starts calling back only after that: the connection
			// routine is then blocked in the write of the reverse request, write lock held
			for i := range p.Ops {
				if p.Ops[i].Kind == "rev" && p.Ops[i].Client == 0 {
					p.Ops[i].SleepNs = int64(300e6)
					p.Params["late_rev"] = 1
				}
			}
		}
	}
	p.Params["react_ms"] = Pick(r, []int64{0, 1, 500, 60000, 400000})
	if r.Bool(0.2) {
		p.Params["sampled"] = 1 // the callers trace their calls with sampled spans
	}
	if variant >= 0 {
		p.Params["react_ms"] = []int64{0, 1, 500, 60000, 400000}[(variant/4)%5]
	}
	return p
}

var reCount = regexp.MustCompile(`^(\d+) @`)

// serverGoroutinesByRemote counts goroutines carrying the server-side
// connection label, keyed by the connection ordinal ("c<n>").
func serverGoroutinesByRemote() map[string]int {
	m, _ := serverGoroutines()
	return m
}

// serverGoroutines also returns, per connection, where those goroutines are.
func serverGoroutines() (map[string]int, map[string][]string) {
	var buf bytes.Buffer
	_ = pprof.Lookup("goroutine").WriteTo(&buf, 1)
	out := map[string]int{}
	where := map[string][]string{}
	n := 0
	cur := ""
	for _, line := range strings.Split(buf.String(), "\n") {
		if strings.HasPrefix(line, "#\t") && cur != "" {
			f := strings.Fields(line)
			if len(f) >= 4 && len(where[cur]) < 12 && !strings.HasPrefix(f[2], "runtime.") {
				fn := f[2]
				if i := strings.LastIndex(fn, "/"); i >= 0 {
					fn = fn[i+1:]
				}
				if i := strings.Index(fn, "+0x"); i >= 0 {
					fn = fn[:i]
				}
				loc := f[3]
				if i := strings.LastIndex(loc, "/"); i >= 0 {
					loc = loc[i+1:]
				}
				where[cur] = append(where[cur], fn+"@"+loc)
			}
			continue
		}
		if line == "" {
			cur = ""
		}
		if m := reCount.FindStringSubmatch(line); m != nil {
			n, _ = strconv.Atoi(m[1])
			continue
		}
		if strings.HasPrefix(line, "# labels:") {
			if !strings.Contains(line, `"jrpc-mode":"wsserver"`) {
				continue
			}
			i := strings.Index(line, "sim-peer-of-S-")
			if i < 0 {
				continue
			}
			rest := line[i+len("sim-peer-of-S-"):]
			j := 0
			for j < len(rest) && rest[j] >= '0' && rest[j] <= '9' {
				j++
			}
			out["c"+rest[:j]] += n
			cur = "c" + rest[:j]
			where[cur] = append(where[cur], "|")
		}
	}
	return out, where
}

func runC15(e *Env, p *Plan) {
	if p.Param("sampled", 0) > 0 {
		defer Sampled()()
		e.Probe("calls-carry-sampled-span-contexts")
	}
	w, err := e.Build(p)
	if err != nil {
		e.Violate("setup", "building the world failed on a healthy network: %v", err)
		return
	}
	gates := []chan struct{}{}
	var cancels []context.CancelFunc
	defer func() {
		for _, c := range cancels {
			c()
		}
	}()
	for _, op := range p.Ops {
		op := op
		if op.Kind == "ctx" {
			ctx, cancel := context.WithCancel(context.Background())
			cancels = append(cancels, cancel)
			w.Start(op, ctx)
			e.S.Go("cancel-"+itoa(op.Tok), func() {
				for i := 1; i < op.Cancel; i++ {
					simrt.Yield("cancel-delay")
				}
				e.Probe("caller-cancels")
				cancel()
			})
			continue
		}
		t := w.Register(op)
		if op.Kind == "notifyrevflood" {
			e.Probe("server-side-subscriber-thousands-of-values-behind")
			w.Start(op, nil)
			continue
		}
		if op.Kind != "sub" || op.Hold {
			g := make(chan struct{})
			gates = append(gates, g)
			t.mu.Lock()
			t.Gate = g
			t.mu.Unlock()
		}
		w.Start(op, nil)
		if op.Kind != "sub" || op.Hold {
			t.mu.Lock()
			t.Gate = gates[len(gates)-1]
			t.mu.Unlock()
		}
	}
	if !e.S.Settle(200 * time.Millisecond) {
		return
	}
	if p.Param("wstall", 0) > 0 {
		e.N.Inject(0, "wstall", "s2c", 0)
		e.Probe("peer-stopped-reading")
		if p.Param("late_rev", 0) > 0 {
			e.S.Sleep(200 * time.Millisecond)
			if !e.S.Settle(time.Millisecond) {
				return
			}
			e.Probe("reverse-call-issued-into-the-stall")
		}
	}
	if len(p.Faults) == 0 {
		for _, g := range gates {
			close(g)
		}
		e.S.Settle(time.Second)
		w.Teardown()
		return
	}
	f := p.Faults[0]
	for i := 0; i < f.Phase; i++ {
		simrt.Yield("end-delay")
	}
	// which connections are meant to end
	dead := map[string]bool{}
	switch f.Kind {
	case "srvcancel":
		for i := range w.Clients {
			dead["c"+itoa(i)] = true
		}
	default:
		dead["c0"] = true
	}
	running := 0
	for _, t := range e.SortedToks() {
		t.mu.Lock()
		if len(t.HCtx) > len(t.HEnd) && len(t.Conns) > 0 && dead[t.Conns[len(t.Conns)-1]] {
			running++
		}
		t.mu.Unlock()
	}
	if running > 0 {
		e.Probe("handlers-in-progress-at-end")
	}
	if p.Param("late_big", 0) > 0 {
		// a large request is on its way to the server when the connection ends
		w.Start(Op{Kind: "callbig", Client: 0, Tok: 7000, N: int(p.Param("late_big", 0))}, nil)
		for i := 0; i < int(p.Param("late_big_yields", 3)); i++ {
			simrt.Yield("late-big-delay")
		}
		e.Probe("large-request-in-transit-at-end")
	}
	simrt.Rec("end-cause", f.Kind, "", int64(running))
	switch f.Kind {
	case "close":
		c := w.Clients[0]
		e.S.Go("end-close", func() { c.Close(e) })
	case "fin", "rst":
		e.N.Inject(0, f.Kind, f.Dir, 0)
	case "srvcancel":
		w.Servers[0].Cancel()
	}
	if !e.S.Settle(time.Minute) {
		return
	}
	// (a) handler contexts of the dead connection(s) are cancelled, others are not
	for _, t := range e.SortedToks() {
		t.mu.Lock()
		var ctx context.Context
		conn := ""
		if len(t.HCtx) > 0 {
			ctx, conn = t.HCtx[len(t.HCtx)-1], t.Conns[len(t.Conns)-1]
		}
		runningNow := len(t.HCtx) > len(t.HEnd)
		kind := t.Kind
		t.mu.Unlock()
		if ctx == nil {
			continue
		}
		if dead[conn] {
			open := runningNow
			if kind == "sub" {
				st := e.Sub(t.ID)
				st.mu.Lock()
				open = !st.ProdDone || runningNow
				st.mu.Unlock()
			}
			if open && ctx.Err() == nil {
				e.Violate("C15.handlers-cancelled", "connection %s ended (%s) one fake minute ago; the context of the %s handler tok=%d still running for it is not cancelled", conn, f.Kind, kind, t.ID)
			}
		} else if runningNow && ctx.Err() != nil {
			e.Violate("C15.other-connections-untouched", "connection c0 ended (%s); the context of handler tok=%d on the live connection %s was cancelled", f.Kind, t.ID, conn)
		}
	}
	// reaction time of the handlers, then they return their results
	e.S.Sleep(dur(p.Param("react_ms", 0) * 1e6))
	for _, g := range gates {
		close(g)
	}
	if !e.S.Settle(H) {
		return
	}
	// (b) nothing of the library is left running on behalf of the dead connection
	left, where := serverGoroutines()
	for conn := range dead {
		if n := left[conn]; n > 0 {
			e.Violate("C15.no-goroutine-retained", "connection %s ended (%s) and all its handlers have returned, yet %d goroutine(s) labelled with it are still alive %v later (handlers in progress at the end: %d); blocked at: %s", conn, f.Kind, n, H, running, strings.Join(where[conn], " "))
		}
	}
	for _, t := range e.SortedToks() {
		t.mu.Lock()
		stuck := len(t.HCtx) > len(t.HEnd)
		t.mu.Unlock()
		if stuck {
			e.Violate("C15.harness", "handler tok=%d never returned although released (harness problem?)", t.ID)
		}
	}
	w.Teardown()
}
