package harness

import (
	"time"

	"github.com/anishathalye/porcupine"

	"verifsim/simrt"
)

// C02 — each concurrent call completes exactly once and with its own response.
// Family "healthy": no connection faults; handlers park, so the completion
// order is a scheduler decision; latency and re-segmentation vary per run.

func init() {
	register(&Scenario{Prop: "C02", Gen: genC02, Run: runC02,
		Nontrivial: func(r *RunRes) bool { return r.NOps >= 2 && r.Preempt > 0 }})
}

// nthPerm returns the k-th permutation (factorial number system) of 0..n-1.
func nthPerm(n, k int) []int {
	elems := make([]int, n)
	for i := range elems {
		elems[i] = i
	}
	fact := 1
	for i := 2; i <= n; i++ {
		fact *= i
	}
	k %= fact
	var out []int
	for i := n; i >= 1; i-- {
		fact /= i
		j := k / fact
		k %= fact
		out = append(out, elems[j])
		elems = append(elems[:j], elems[j+1:]...)
	}
	return out
}

func genC02(r *simrt.RNG, tier string, variant int) Plan {
	p := Plan{Family: "healthy"}
	if variant >= 0 {
		// thorough sweep: N = 2..5 concurrent calls on one client whose server
		// handlers finish in the (variant/4)-th permutation of their start order
		// (every permutation is visited: 2!+3!+4!+5! = 152 variants), each under
		// this run's own schedule, latency and segmentation
		n := 2 + variant%4
		p.Family = "permutation"
		p.Params = map[string]int64{"perm": int64(variant / 4)}
		p.Servers = []ServerPlan{{Addr: "srv0:1", PingNs: -1}}
		p.Clients = []ClientPlan{{Name: "A", Kind: Pick(r, []string{"ws", "ws", "http"}), Server: 0, PingNs: -1}}
		for i := 0; i < n; i++ {
			op := Op{Kind: "call", Client: 0, Tok: i + 1, Size: Pick(r, []int{0, 100, 5000}), Err: r.Bool(0.2)}
			p.Ops = append(p.Ops, op)
		}
		return p
	}
	p.Servers = []ServerPlan{{Addr: "srv0:1", PingNs: Pick(r, []int64{0, -1, int64(50e6), int64(1e9)})}}
	nc := 1 + r.Intn(3)
	tok := 1
	bit := 0
	for ci := 0; ci < nc; ci++ {
		kind := "ws"
		switch r.Intn(6) {
		case 0:
			kind = "http"
		case 1:
			kind = "custom"
		}
		p.Clients = append(p.Clients, ClientPlan{Name: string(rune('A' + ci)), Kind: kind, Server: 0,
			PingNs: Pick(r, []int64{0, 0, -1, int64(20e6)}), KeepAlive: kind == "http" && r.Bool(0.5)})
		n := 2 + r.Intn(11)
		if variant >= 0 {
			n = 2 + variant%4 // permutation sweep: small N
		}
		for i := 0; i < n; i++ {
			op := Op{Client: ci, Tok: tok, Hold: !r.Bool(0.15)}
			switch r.Intn(10) {
			case 0, 1, 2:
				op.Kind = "add"
				op.Delta = int64(1) << uint(bit)
				bit++
			case 3:
				op.Kind = "alias"
			default:
				op.Kind = "call"
			}
			if op.Kind != "add" {
				op.Size = Pick(r, []int{0, 0, 10, 100, 4000, 4096, 5000, 13000})
				op.Err = r.Bool(0.2)
			}
			p.Ops = append(p.Ops, op)
			tok++
		}
	}
	return p
}

func Pick[T any](r *simrt.RNG, xs []T) T { return simrt.Pick(r, xs) }

func runC02(e *Env, p *Plan) {
	w, err := e.Build(p)
	if err != nil {
		e.Violate("setup", "building the world failed on a healthy network: %v", err)
		return
	}
	if p.Family == "permutation" {
		n := len(p.Ops)
		gates := make([]chan struct{}, n)
		for i, op := range p.Ops {
			gates[i] = make(chan struct{})
			t := w.Register(op)
			t.mu.Lock()
			t.Gate = gates[i]
			t.mu.Unlock()
			w.Start(op, nil)
			t.mu.Lock()
			t.Gate = gates[i]
			t.mu.Unlock()
		}
		// wait until every handler is running, then let them finish in the chosen order
		if !e.SettleUntil(func() bool {
			for _, op := range p.Ops {
				t := e.Tok(op.Tok)
				t.mu.Lock()
				started := len(t.HStart) > 0
				t.mu.Unlock()
				if !started {
					return false
				}
			}
			return true
		}, 100*time.Millisecond, 10*time.Second) {
			return
		}
		for _, i := range nthPerm(n, int(p.Param("perm", 0))) {
			if i < len(gates) {
				close(gates[i])
				simrt.Rec("release", itoa(p.Ops[i].Tok), "", 0)
				if !e.S.Settle(time.Millisecond) {
					return
				}
			}
		}
		e.Probe("completion-order-permutations")
	} else {
		for _, op := range p.Ops {
			w.Start(op, nil)
		}
	}
	if !e.S.Settle(3 * time.Second) {
		return
	}
	w.CheckAllReturned("C02.a-every-call-returns")
	w.CheckOwnResults("C02.b-own-result", false)
	w.CheckOneResponsePerRequest("C02.c-one-response-per-id", true)
	w.CheckWireWellFormed("C02.wire")
	for _, t := range e.SortedToks() {
		if t.Invoked && t.Execs != 1 {
			e.Violate("C02.d-handler-ran-once", "tok=%d kind=%s: handler ran %d times", t.ID, t.Kind, t.Execs)
		}
	}
	w.CheckCounterLinearizable("C02.e-linearizable-counter")
	w.Teardown()
}

type addIn struct{ Delta int64 }

// CheckCounterLinearizable feeds the add operations to porcupine.
func (w *World) CheckCounterLinearizable(oracle string) {
	var ops []porcupine.Operation
	for _, t := range w.E.SortedToks() {
		if t.Kind != "add" || !t.Returned {
			continue
		}
		if t.RetErr != nil {
			w.E.Violate(oracle, "add tok=%d failed on a healthy connection: %v", t.ID, t.RetErr)
			continue
		}
		// events of one step are concurrent: invoke at 2*step, return at 2*step+1
		ops = append(ops, porcupine.Operation{ClientId: t.ID, Input: addIn{t.Delta}, Call: int64(2 * t.InvokeAt), Output: t.IVal, Return: int64(2*t.ReturnAt + 1)})
	}
	if len(ops) == 0 {
		return
	}
	if len(ops) > 40 {
		ops = ops[:40]
	}
	model := porcupine.Model{
		Init: func() interface{} { return int64(0) },
		Step: func(state, input, output interface{}) (bool, interface{}) {
			ns := state.(int64) + input.(addIn).Delta
			return output.(int64) == ns, ns
		},
	}
	res := porcupine.CheckOperationsTimeout(model, ops, 0)
	w.E.Probe("porcupine-histories")
	if res == porcupine.Illegal {
		w.E.Violate(oracle, "counter history is not linearizable: %v", summarizeOps(ops))
	}
}

func summarizeOps(ops []porcupine.Operation) string {
	s := ""
	for _, o := range ops {
		s += jsonOf(map[string]interface{}{"tok": o.ClientId, "d": o.Input.(addIn).Delta, "call": o.Call, "out": o.Output, "ret": o.Return}) + " "
	}
	return s
}
