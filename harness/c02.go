package harness

import (
	"time"

	"github.com/anishathalye/porcupine"

	"verifsim/simrt"
)

// C02 — each concurrent call completes exactly once and with its own response.
// Family "healthy": no connection faults; handlers park, so the completion
// order is a scheduler decision; latency and re-segmentation vary per run.

func init() {
	register(&Scenario{Prop: "C02", Gen: genC02, Run: runC02,
		Nontrivial: func(r *RunRes) bool { return r.NOps >= 2 && r.Preempt > 0 }})
}

func genC02(r *simrt.RNG, tier string, variant int) Plan {
	p := Plan{Family: "healthy"}
	p.Servers = []ServerPlan{{Addr: "srv0:1", PingNs: Pick(r, []int64{0, -1, int64(50e6), int64(1e9)})}}
	nc := 1 + r.Intn(3)
	tok := 1
	bit := 0
	for ci := 0; ci < nc; ci++ {
		kind := "ws"
		switch r.Intn(6) {
		case 0:
			kind = "http"
		case 1:
			kind = "custom"
		}
		p.Clients = append(p.Clients, ClientPlan{Name: string(rune('A' + ci)), Kind: kind, Server: 0,
			PingNs: Pick(r, []int64{0, 0, -1, int64(20e6)}), KeepAlive: kind == "http" && r.Bool(0.5)})
		n := 2 + r.Intn(11)
		if variant >= 0 {
			n = 2 + variant%4 // permutation sweep: small N
		}
		for i := 0; i < n; i++ {
			op := Op{Client: ci, Tok: tok, Hold: !r.Bool(0.15)}
			switch r.Intn(10) {
			case 0, 1, 2:
				op.Kind = "add"
				op.Delta = int64(1) << uint(bit)
				bit++
			case 3:
				op.Kind = "alias"
			default:
				op.Kind = "call"
			}
			if op.Kind != "add" {
				op.Size = Pick(r, []int{0, 0, 10, 100, 4000, 4096, 5000, 13000})
				op.Err = r.Bool(0.2)
			}
			p.Ops = append(p.Ops, op)
			tok++
		}
	}
	return p
}

func Pick[T any](r *simrt.RNG, xs []T) T { return simrt.Pick(r, xs) }

func runC02(e *Env, p *Plan) {
	w, err := e.Build(p)
	if err != nil {
		e.Violate("setup", "building the world failed on a healthy network: %v", err)
		return
	}
	for _, op := range p.Ops {
		w.Start(op, nil)
	}
	if !e.S.Settle(3 * time.Second) {
		return
	}
	w.CheckAllReturned("C02.a-every-call-returns")
	w.CheckOwnResults("C02.b-own-result", false)
	w.CheckOneResponsePerRequest("C02.c-one-response-per-id", true)
	w.CheckWireWellFormed("C02.wire")
	for _, t := range e.SortedToks() {
		if t.Invoked && t.Execs != 1 {
			e.Violate("C02.d-handler-ran-once", "tok=%d kind=%s: handler ran %d times", t.ID, t.Kind, t.Execs)
		}
	}
	w.CheckCounterLinearizable("C02.e-linearizable-counter")
	w.Teardown()
}

type addIn struct{ Delta int64 }

// CheckCounterLinearizable feeds the add operations to porcupine.
func (w *World) CheckCounterLinearizable(oracle string) {
	var ops []porcupine.Operation
	for _, t := range w.E.SortedToks() {
		if t.Kind != "add" || !t.Returned {
			continue
		}
		if t.RetErr != nil {
			w.E.Violate(oracle, "add tok=%d failed on a healthy connection: %v", t.ID, t.RetErr)
			continue
		}
		// events of one step are concurrent: invoke at 2*step, return at 2*step+1
		ops = append(ops, porcupine.Operation{ClientId: t.ID, Input: addIn{t.Delta}, Call: int64(2 * t.InvokeAt), Output: t.IVal, Return: int64(2*t.ReturnAt + 1)})
	}
	if len(ops) == 0 {
		return
	}
	if len(ops) > 40 {
		ops = ops[:40]
	}
	model := porcupine.Model{
		Init: func() interface{} { return int64(0) },
		Step: func(state, input, output interface{}) (bool, interface{}) {
			ns := state.(int64) + input.(addIn).Delta
			return output.(int64) == ns, ns
		},
	}
	res := porcupine.CheckOperationsTimeout(model, ops, 0)
	w.E.Probe("porcupine-histories")
	if res == porcupine.Illegal {
		w.E.Violate(oracle, "counter history is not linearizable: %v", summarizeOps(ops))
	}
}

func summarizeOps(ops []porcupine.Operation) string {
	s := ""
	for _, o := range ops {
		s += jsonOf(map[string]interface{}{"tok": o.ClientId, "d": o.Input.(addIn).Delta, "call": o.Call, "out": o.Output, "ret": o.Return}) + " "
	}
	return s
}
