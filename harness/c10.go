package harness

import (
	"bytes"
	"context"
	"encoding/hex"
	"encoding/json"
	"fmt"
	"io"
	"net/http"
	"strings"
	"time"

	"github.com/gorilla/websocket"

	"verifsim/simrt"
)

// C10 — no peer input can crash or wedge the process; oversize bodies are refused.
// Families:
//   hostile-client : a raw WebSocket endpoint driven by the harness attacks a real
//                    server while an honest client works on another connection
//   hostile-server : a harness-side WebSocket server feeds hostile frames to a real client
//   size           : HTTP bodies of L-1, L, L+1 bytes (input-only, enumerated)

func init() {
	register(&Scenario{Prop: "C10", Gen: genC10, Run: runC10,
		Nontrivial: func(r *RunRes) bool { return r.Probes["hostile-frames-sent"] > 0 || r.Probes["size-cases"] > 0 }})
}

var hostileMethods = []string{"T.Call", "T.Notify", "T.Sub", "T.Nope", "xrpc.cancel", "xrpc.ch.val", "xrpc.ch.close", ""}

func genValue(r *simrt.RNG, live []string) string {
	switch r.Intn(14) {
	case 0, 1, 2:
		if len(live) > 0 {
			return Pick(r, live)
		}
		return fmt.Sprint(r.Intn(10))
	case 3:
		return fmt.Sprint(r.Intn(1000))
	case 4:
		return `"` + Pick(r, []string{"", "x", "1", "a\\u0000b", "8116d306-56cc-4637-9dd7-39ce1548a5a0"}) + `"`
	case 5:
		return Pick(r, []string{"true", "false"})
	case 6:
		return "null"
	case 7:
		return Pick(r, []string{"[]", "[1]", "[[[]]]"})
	case 8:
		return Pick(r, []string{"{}", `{"a":1}`})
	case 9:
		return Pick(r, []string{"1e400", "123456789012345678901234567890", "18446744073709551616"})
	case 10:
		return Pick(r, []string{"-1", "-0", "-9223372036854775809"})
	case 11:
		return Pick(r, []string{"1.5", "0.1", "1e-9"})
	case 12:
		return "4294967296"
	default:
		return "0"
	}
}

func genHostileFrame(r *simrt.RNG, live []string) string {
	switch r.Intn(20) {
	case 0:
		return Pick(r, []string{"", " ", "\n", "{", "}", "[", "null", "[]", "0", `"x"`, "{\"jsonrpc\":", "@hex:fffe", "{}{}"})
	case 1:
		return "[" + genHostileFrame(r, live) + "]"
	}
	m := Pick(r, hostileMethods)
	var parts []string
	parts = append(parts, `"jsonrpc":`+Pick(r, []string{`"2.0"`, `"2.0"`, `"1.0"`, `2`, `null`}))
	if m != "" || r.Bool(0.2) {
		parts = append(parts, `"method":"`+m+`"`)
	}
	switch r.Intn(8) {
	case 0: // absent
	case 1:
		parts = append(parts, `"params":null`)
	case 2:
		parts = append(parts, `"params":[]`)
	case 3, 4:
		parts = append(parts, `"params":[`+genValue(r, live)+`]`)
	case 5, 6:
		parts = append(parts, `"params":[`+genValue(r, live)+`,`+genValue(r, live)+`]`)
	default:
		parts = append(parts, `"params":`+Pick(r, []string{`{}`, `{"a":[1]}`, `"x"`, `7`, `true`}))
	}
	if r.Bool(0.6) {
		parts = append(parts, `"id":`+genValue(r, live))
	}
	if m == "" {
		if r.Bool(0.7) {
			parts = append(parts, `"result":`+genValue(r, live))
		}
		if r.Bool(0.3) {
			parts = append(parts, `"error":`+Pick(r, []string{`{"code":1,"message":"x"}`, `null`, `"e"`, `{"code":"x"}`, `{}`}))
		}
	}
	if r.Bool(0.1) {
		parts = append(parts, `"meta":`+Pick(r, []string{`{"SpanContext":"!!!"}`, `{"SpanContext":""}`, `7`, `{"a":1}`}))
	}
	perm := r.Perm(len(parts))
	var sb strings.Builder
	sb.WriteString("{")
	for i, j := range perm {
		if i > 0 {
			sb.WriteString(",")
		}
		sb.WriteString(parts[j])
	}
	sb.WriteString("}")
	return sb.String()
}

func genC10(r *simrt.RNG, tier string, variant int) Plan {
	p := Plan{Params: map[string]int64{}}
	switch x := r.Intn(10); {
	case x < 5:
		p.Family = "hostile-client"
	case x < 9:
		p.Family = "hostile-server"
	default:
		p.Family = "size"
	}
	if p.Family == "size" {
		L := Pick(r, []int64{1, 64, 4096, 1 << 20})
		p.Params["L"] = L
		p.Servers = []ServerPlan{{Addr: "srv0:1", MaxReq: L}}
		return p
	}
	p.Servers = []ServerPlan{{Addr: "srv0:1", PingNs: Pick(r, []int64{0, -1})}}
	p.Clients = []ClientPlan{{Name: "A", Kind: "ws", Server: 0}}
	// honest traffic: one open subscription, one slow call, probes later
	p.Ops = []Op{
		{Kind: "sub", Client: 0, Tok: 1, N: 6, GapNs: int64(200e6)},
		{Kind: "call", Client: 0, Tok: 2, Size: 100},
		{Kind: "ctx", Client: 0, Tok: 3},
		{Kind: "call", Client: 0, Tok: 4, Phase: 1},
		{Kind: "call", Client: 0, Tok: 5, Phase: 1, Size: 5000},
	}
	// ids / channel ids that refer to live state
	live := []string{"1", "2", "3", "101", "102", "1.0", "\"1\""}
	n := 3 + r.Intn(25)
	for i := 0; i < n; i++ {
		op := Op{Kind: "frame", Raw: genHostileFrame(r, live)}
		if r.Bool(0.05) {
			op.Kind = "frame-bin"
		}
		if p.Family == "hostile-server" && r.Bool(0.2) {
			// replay the server's last genuine response k more times
			op = Op{Kind: "frame", Raw: fmt.Sprintf("@dup:%d", 1+r.Intn(4))}
		}
		p.Ops = append(p.Ops, op)
	}
	return p
}

// hostile client: valid requests it issues first so that ids 101.. are live in
// the server's handling table and channel ids exist
var hostilePrelude = []string{
	`{"jsonrpc":"2.0","id":101,"method":"T.Call","params":[901]}`,
	`{"jsonrpc":"2.0","id":102,"method":"T.Sub","params":[902]}`,
}

func runC10(e *Env, p *Plan) {
	switch p.Family {
	case "size":
		runC10Size(e, p)
		return
	case "hostile-server":
		runC10HostileServer(e, p)
		return
	}
	w, err := e.Build(p)
	if err != nil {
		e.Violate("setup", "building the world failed on a healthy network: %v", err)
		return
	}
	// tokens used by the hostile endpoint's own valid calls
	w.Register(Op{Kind: "call", Tok: 901, Hold: true, Client: 99})
	w.Register(Op{Kind: "sub", Tok: 902, N: 3, GapNs: int64(300e6), Client: 99})
	w.Register(Op{Kind: "call", Tok: 903, Client: 99})
	gate := make(chan struct{})
	ctx3, cancel3 := context.WithCancel(context.Background())
	defer cancel3()
	for _, op := range p.Ops {
		if op.Phase != 0 || op.Kind == "frame" || op.Kind == "frame-bin" {
			continue
		}
		if op.Tok == 3 {
			t := w.Register(op)
			t.mu.Lock()
			t.Gate = gate
			t.mu.Unlock()
			w.Start(op, ctx3)
			t.mu.Lock()
			t.Gate = gate
			t.mu.Unlock()
			continue
		}
		w.Start(op, nil)
	}
	if !e.S.Settle(50 * time.Millisecond) {
		return
	}
	hc, _, err := websocket.DefaultDialer.Dial("ws://"+p.Servers[0].Addr+"/rpc", nil)
	if err != nil {
		e.Violate("setup", "hostile endpoint cannot connect: %v", err)
		return
	}
	answers := make(chan string, 256)
	e.S.Go("hostile-reader", func() {
		for {
			_, b, err := hc.ReadMessage()
			if err != nil {
				close(answers)
				return
			}
			select {
			case answers <- string(b):
			default:
			}
		}
	})
	hostileDone := make(chan struct{})
	e.S.Go("hostile-writer", func() {
		defer close(hostileDone)
		for _, f := range hostilePrelude {
			simrt.Yield("hostile-send")
			_ = hc.WriteMessage(websocket.TextMessage, []byte(f))
		}
		for _, op := range p.Ops {
			if op.Kind != "frame" && op.Kind != "frame-bin" {
				continue
			}
			simrt.Yield("hostile-send")
			mt := websocket.TextMessage
			if op.Kind == "frame-bin" {
				mt = websocket.BinaryMessage
			}
			e.Probe("hostile-frames-sent")
			simrt.Rec("hostile", trunc(op.Raw), "", 0)
			if err := hc.WriteMessage(mt, rawBytes(op.Raw)); err != nil {
				return
			}
		}
	})
	if !e.S.Settle(3 * time.Second) {
		return
	}
	// the honest connection is undisturbed: slow call's context still live
	t3 := e.Tok(3)
	t3.mu.Lock()
	var hctx context.Context
	if len(t3.HCtx) > 0 {
		hctx = t3.HCtx[0]
	}
	t3.mu.Unlock()
	if hctx != nil && hctx.Err() != nil {
		e.Violate("C10.other-connection-undisturbed", "the context of the honest in-flight call (tok=3) was cancelled by frames sent on another connection")
	}
	close(gate)
	for _, op := range p.Ops {
		if op.Phase == 1 {
			w.Start(op, nil)
		}
	}
	// the hostile connection itself still answers a valid call
	e.S.Go("hostile-valid", func() {
		<-hostileDone
		_ = hc.WriteMessage(websocket.TextMessage, []byte(`{"jsonrpc":"2.0","id":777,"method":"T.Call","params":[903]}`))
	})
	if !e.S.Settle(3 * time.Second) {
		return
	}
	// the honest stream paces itself (sleep, then yield): wait for its producer
	// rather than for a fixed amount of time
	st1 := e.Sub(1)
	if !e.SettleUntil(func() bool {
		st1.mu.Lock()
		defer st1.mu.Unlock()
		return st1.ProdDone || st1.ProdAbort || !st1.Handed
	}, time.Second, 5*time.Minute) {
		return
	}
	if !e.S.Settle(time.Second) {
		return
	}
	w.CheckAllReturned("C10.server-keeps-answering")
	for _, t := range e.SortedToks() {
		if t.ID > 900 || !t.Returned || (t.Kind != "call" && t.Kind != "ctx") {
			continue
		}
		if t.RetErr != nil || t.Val != Result(t.ID, t.Size) {
			e.Violate("C10.server-keeps-answering", "honest call tok=%d returned (%q, %v) while another connection sent hostile frames", t.ID, trunc(t.Val), t.RetErr)
		}
	}
	st := e.Sub(1)
	if st.Handed && (len(st.Received) != 6 || !st.Closed) {
		e.Violate("C10.other-connection-undisturbed", "the honest subscription received %d of 6 values, closed=%v", len(st.Received), st.Closed)
	}
	got777 := false
drain:
	for {
		select {
		case a, ok := <-answers:
			if !ok {
				break drain
			}
			if strings.Contains(a, `"id":777`) && strings.Contains(a, `"result":"R903:`) {
				got777 = true
			}
		default:
			break drain
		}
	}
	if !got777 {
		e.Violate("C10.same-connection-keeps-answering", "after the hostile frames (none a WebSocket-level violation) a valid call on the same connection got no correct answer")
	}
	_ = hc.Close()
	w.Teardown()
}

// ---- hostile server ---------------------------------------------------------------

func runC10HostileServer(e *Env, p *Plan) {
	addr := "evil:1"
	up := websocket.Upgrader{CheckOrigin: func(*http.Request) bool { return true }}
	var frames []Op
	for _, op := range p.Ops {
		if op.Kind == "frame" || op.Kind == "frame-bin" {
			frames = append(frames, op)
		}
	}
	mux := http.NewServeMux()
	mux.HandleFunc("/rpc", func(rw http.ResponseWriter, r *http.Request) {
		c, err := up.Upgrade(rw, r, nil)
		if err != nil {
			return
		}
		defer c.Close()
		sent := 0
		last := ""
		chid := 0
		push := func(k int) bool {
			for ; k > 0 && sent < len(frames); k-- {
				f := frames[sent]
				sent++
				mt := websocket.TextMessage
				if f.Kind == "frame-bin" {
					mt = websocket.BinaryMessage
				}
				raw := f.Raw
				e.Probe("hostile-frames-sent")
				simrt.Rec("hostile", trunc(raw), "", 0)
				if strings.HasPrefix(raw, "@dup:") {
					var n int
					fmt.Sscanf(raw, "@dup:%d", &n)
					for i := 0; i < n && last != ""; i++ {
						e.Probe("duplicate-responses-sent")
						if c.WriteMessage(websocket.TextMessage, []byte(last)) != nil {
							return false
						}
					}
					continue
				}
				if c.WriteMessage(mt, rawBytes(raw)) != nil {
					return false
				}
			}
			return true
		}
		for {
			_, b, err := c.ReadMessage()
			if err != nil {
				return
			}
			var req struct {
				ID     json.RawMessage `json:"id"`
				Method string          `json:"method"`
				Params []int           `json:"params"`
			}
			_ = json.Unmarshal(b, &req)
			// before answering, push a few hostile frames
			if !push(2) {
				return
			}
			switch {
			case req.Method == "T.Call" && len(req.ID) > 0 && len(req.Params) == 1:
				last = fmt.Sprintf(`{"jsonrpc":"2.0","id":%s,"result":%q}`, req.ID, Result(req.Params[0], 0))
				if c.WriteMessage(websocket.TextMessage, []byte(last)) != nil {
					return
				}
			case req.Method == "T.Sub" && len(req.ID) > 0 && len(req.Params) == 1:
				chid++
				last = fmt.Sprintf(`{"jsonrpc":"2.0","id":%s,"result":%d}`, req.ID, chid)
				if c.WriteMessage(websocket.TextMessage, []byte(last)) != nil {
					return
				}
				if !push(2) {
					return
				}
				for k := 0; k < 2; k++ {
					v := fmt.Sprintf(`{"jsonrpc":"2.0","method":"xrpc.ch.val","params":[%d,%d]}`, chid, SubVal(req.Params[0], k))
					if c.WriteMessage(websocket.TextMessage, []byte(v)) != nil {
						return
					}
				}
				cl := fmt.Sprintf(`{"jsonrpc":"2.0","method":"xrpc.ch.close","params":[%d]}`, chid)
				if c.WriteMessage(websocket.TextMessage, []byte(cl)) != nil {
					return
				}
			}
			if !push(1) {
				return
			}
		}
	})
	hs := &http.Server{Handler: mux}
	l := e.N.Listen(addr)
	e.S.Go("evil-srv", func() { _ = hs.Serve(l) })
	srv := &Server{Addr: addr}
	c, err := e.NewClient("V", srv, ClientOpts{Kind: "ws", NoReconnect: true})
	if err != nil {
		e.Violate("setup", "client cannot connect to the harness server: %v", err)
		return
	}
	w := &World{E: e, P: p, Clients: []*Client{c}}
	n := 2 + len(frames)/3
	for i := 0; i < n; i++ {
		kind := "call"
		if i%3 == 1 {
			kind = "sub"
		}
		w.Start(Op{Kind: kind, Client: 0, Tok: 100 + i, N: 2}, nil)
		if !e.S.Settle(100 * time.Millisecond) {
			return
		}
	}
	if !e.S.Settle(2 * time.Second) {
		return
	}
	// the hostile server may legitimately answer a request id itself (a forged
	// response with a live id), so results are not constrained; the client must
	// survive and every call must return
	w.CheckAllReturned("C10.client-survives-hostile-server")
	e.S.Go("close-V", func() { c.Close(e) })
	if !e.S.Settle(time.Second) {
		return
	}
	if _, done := c.closeState(); !done {
		e.Violate("C10.client-survives-hostile-server", "after the hostile frames the client's closer does not return: the client is wedged")
	}
	_ = hs.Close()
	e.S.Settle(time.Second)
}

// ---- size clause (input-only, enumerated) ---------------------------------------------

func runC10Size(e *Env, p *Plan) {
	L := p.Param("L", 4096)
	w, err := e.Build(p)
	if err != nil {
		e.Violate("setup", "build: %v", err)
		return
	}
	hc := &http.Client{Transport: &http.Transport{DialContext: e.N.Dialer(false), DisableKeepAlives: true}}
	tok := 1
	// send delivers a body in one of three ways: an HTTP POST with Content-Length,
	// an HTTP POST of undeclared length (chunked), or the transport-agnostic
	// RPCServer.HandleRequest
	send := func(mode int, body []byte) (string, error) {
		switch mode {
		case 2:
			var out bytes.Buffer
			w.Servers[0].RPC.HandleRequest(context.Background(), struct{ io.Reader }{bytes.NewReader(body)}, &out)
			return out.String(), nil
		default:
			var rd io.Reader = bytes.NewReader(body)
			if mode == 1 {
				rd = struct{ io.Reader }{rd} // net/http cannot size it: Transfer-Encoding: chunked
			}
			resp, err := hc.Post("http://"+p.Servers[0].Addr+"/rpc", "application/json", rd)
			if err != nil {
				return "", err
			}
			rb, _ := io.ReadAll(resp.Body)
			resp.Body.Close()
			return string(rb), nil
		}
	}
	small := func(mode int) {
		if L < 64 {
			return
		}
		// a small valid request, which must be unaffected by what came before
		w.Register(Op{Kind: "call", Tok: tok, Client: 99})
		body := []byte(fmt.Sprintf(`{"jsonrpc":"2.0","id":%d,"method":"T.Call","params":[%d]}`, tok, tok))
		rb, err := send(mode, body)
		if err != nil {
			e.Violate("C10.server-keeps-answering", "valid request after a refused body failed at transport level: %v", err)
		} else if want := fmt.Sprintf(`"result":"R%d:"`, tok); !strings.Contains(rb, want) || e.Tok(tok).Execs != 1 {
			e.Violate("C10.server-keeps-answering", "a small valid request sent after bodies around the size limit got %q (handler ran %d times)", trunc(rb), e.Tok(tok).Execs)
		}
		tok++
	}
	sizes := []int64{L - 1, L, L + 1, L + 2}
	if L <= 4096 {
		sizes = append(sizes, 4*L)
	}
	modeName := []string{"POST with Content-Length", "chunked POST", "HandleRequest"}
	for mode := 0; mode < 3; mode++ {
		for _, n := range sizes {
			if n <= 0 {
				continue
			}
			e.Probe("size-cases")
			w.Register(Op{Kind: "call", Tok: tok, Client: 99})
			body := []byte(fmt.Sprintf(`{"jsonrpc":"2.0","id":%d,"method":"T.Call","params":[%d]}`, tok, tok))
			valid := int64(len(body)) <= n
			prefixOK := int64(len(body)) <= L // the first L bytes parse on their own
			if prefixOK || valid {
				if int(n) > len(body) {
					body = append(body, bytes.Repeat([]byte(" "), int(n)-len(body))...)
				}
			} else {
				body = bytes.Repeat([]byte(" "), int(n))
				if n >= 2 {
					body[0], body[n-1] = '[', ']'
				}
			}
			rb, err := send(mode, body)
			if err != nil {
				e.Violate("C10.size-limit", "%s of %d bytes (limit %d) failed at transport level: %v", modeName[mode], n, L, err)
				tok++
				continue
			}
			tooBig := strings.Contains(rb, "bigger than maximum")
			execs := e.Tok(tok).Execs
			switch {
			case n > L && execs > 0:
				e.Violate("C10.size-limit", "%s: body of %d bytes exceeds the limit %d yet the handler ran (reply %q)", modeName[mode], n, L, trunc(rb))
			case n > L && !tooBig:
				e.Violate("C10.size-limit", "%s: body of %d bytes exceeds the limit %d but was not rejected as too big: %q", modeName[mode], n, L, trunc(rb))
			case n <= L && tooBig:
				e.Violate("C10.size-limit", "%s: body of %d bytes is within the limit %d but was rejected as too big", modeName[mode], n, L)
			case n <= L && valid && (execs != 1 || !strings.Contains(rb, `"result":"R`)):
				e.Violate("C10.size-limit", "%s: valid body of %d bytes within the limit %d: handler ran %d times, reply %q", modeName[mode], n, L, execs, trunc(rb))
			}
			tok++
			small(mode)
		}
	}
	w.Teardown()
}

// rawBytes decodes a hostile frame: "@hex:<hex>" stands for bytes that are not
// valid UTF-8 (a replay file is JSON and could not carry them verbatim).
func rawBytes(raw string) []byte {
	if strings.HasPrefix(raw, "@hex:") {
		if b, err := hex.DecodeString(raw[5:]); err == nil {
			return b
		}
	}
	return []byte(raw)
}
