package harness

import (
	"context"
	"fmt"
	"time"

	"verifsim/simnet"
	"verifsim/simrt"
)

// C14 — concurrent writers never corrupt or interleave WebSocket messages.
// Maximal writer diversity on one connection, both directions; the simulated
// Conn.Write is a park while the caller still holds writeLk, so any writer that
// does not take the lock can run into the gap. The oracle is black-box: every
// byte stream on every tap must parse as whole frames / whole JSON-RPC messages.

func init() {
	register(&Scenario{Prop: "C14", Gen: genC14, Run: runC14,
		Nontrivial: func(r *RunRes) bool { return r.Parks["netwrite"] > 30 && r.Preempt > 0 }})
}

func genC14(r *simrt.RNG, tier string, variant int) Plan {
	p := Plan{Family: "healthy", Params: map[string]int64{}}
	ping := Pick(r, []int64{int64(5e6), int64(30e6), int64(200e6)})
	p.Servers = []ServerPlan{{Addr: "srv0:1", PingNs: Pick(r, []int64{ping, ping * 2, -1}), Reverse: true}}
	p.Clients = []ClientPlan{{Name: "A", Kind: "ws", Server: 0, PingNs: ping, TimeoutNs: ping * 40, Reverse: true,
		BackoffMin: int64(1e6), BackoffMax: int64(5e6)}}
	if r.Bool(0.2) {
		p.Clients = append(p.Clients, ClientPlan{Name: "B", Kind: "ws", Server: 0, PingNs: ping * 3, TimeoutNs: ping * 60, Reverse: true})
	}
	tok := 1
	n := 4 + r.Intn(9)
	for i := 0; i < n; i++ {
		op := Op{Client: r.Intn(len(p.Clients)), Tok: tok, Hold: r.Bool(0.5)}
		tok++
		switch x := r.Intn(12); {
		case x < 4:
			op.Kind = "ctx"
			op.Size = Pick(r, []int{10, 100, 4090, 4096, 9000, 20500})
			if r.Bool(0.4) {
				op.Cancel = 1 + Pick(r, []int{0, 2, 8, 30})
			}
		case x < 6:
			op.Kind = "sub"
			op.N = Pick(r, []int{1, 5, 30})
			op.Hold = false
			if r.Bool(0.4) {
				op.Cancel = 1 + Pick(r, []int{3, 20, 60})
			}
		case x < 8:
			op.Kind = "rev"
			op.N = r.Intn(3)
		case x < 9:
			op.Kind = "notify"
		default:
			op.Kind = "call"
			op.Size = Pick(r, []int{0, 100, 5000, 20500})
			if r.Bool(0.06) {
				op.Size = 300000 // dozens of write-buffer flushes for one message
			}
			op.Err = r.Bool(0.15)
		}
		p.Ops = append(p.Ops, op)
	}
	if r.Bool(0.35) {
		p.Family = "faulty"
		p.Faults = append(p.Faults, Fault{Kind: Pick(r, []string{"fin", "rst"}), Dir: Pick(r, []string{"c2s", "s2c"}), Pipe: 0,
			Frame: 2 + r.Intn(14), Pos: Pick(r, cutPos)})
	}
	if r.Bool(0.3) {
		// the peer stops reading for a while (full send buffer): a writer blocks inside
		// Write while holding the write lock; 3 s is far beyond every ping interval here
		p.Faults = append(p.Faults, Fault{Kind: "wstall", Dir: Pick(r, []string{"c2s", "s2c"}), Pipe: 0, Frame: -1, Phase: 5 + r.Intn(60),
			DurNs: Pick(r, []int64{int64(50e6), int64(3e9), int64(3e9), int64(14e9), int64(45e9)})})
		if d := p.Faults[len(p.Faults)-1].DurNs; d > int64(1e9) {
			// keepalive must tolerate the stall: this is a slow peer, not a dead one,
			// however long a single message takes to get through
			p.Clients[0].TimeoutNs = int64(20e9)
			if 4*d > p.Clients[0].TimeoutNs {
				p.Clients[0].TimeoutNs = 4 * d
			}
			p.Params["long_stall"] = d
		}
	}
	p.Params["close_after"] = int64(r.Intn(3)) // 0: no close, 1: close at the end, 2: close mid-workload
	if p.Params["long_stall"] > 1 && r.Bool(0.6) {
		p.Params["close_after"], p.Params["close_in_stall"] = 2, 1
	}
	return p
}

func runC14(e *Env, p *Plan) {
	w, err := e.Build(p)
	if err != nil {
		e.Violate("setup", "building the world failed on a healthy network: %v", err)
		return
	}
	e.Invariant("C14.wire", func() string {
		for _, pipe := range w.WSPipes() {
			for _, dir := range []string{"c2s", "s2c"} {
				e.N.Lock()
				terr := pipe.TapOf(dir).Err
				e.N.Unlock()
				if terr != "" {
					return fmt.Sprintf("pipe c%d %s: byte stream is not a sequence of WebSocket frames: %s", pipe.ID, dir, terr)
				}
			}
		}
		return ""
	})
	stallStarted := make(chan struct{})
	for _, f := range p.Faults {
		f := f
		switch f.Kind {
		case "wstall":
			e.S.Go("wstall", func() {
				for i := 0; i < f.Phase; i++ {
					simrt.Yield("wstall-delay")
				}
				e.N.Inject(f.Pipe, "wstall", f.Dir, 0)
				e.Probe("write-stall-injected")
				close(stallStarted)
				time.Sleep(dur(f.DurNs))
				e.N.Heal()
			})
		default:
			e.N.PlanCut(f.Pipe, simnet.Cut{Dir: f.Dir, Frame: f.Frame, Pos: f.Pos, Kind: f.Kind})
		}
	}
	var cancels []context.CancelFunc
	for _, op := range p.Ops {
		op := op
		ctx, cancel := context.WithCancel(context.Background())
		cancels = append(cancels, cancel)
		w.Start(op, ctx)
		if op.Cancel > 0 {
			e.S.Go(fmt.Sprintf("cancel-%d", op.Tok), func() {
				for i := 1; i < op.Cancel; i++ {
					simrt.Yield("cancel-delay")
				}
				t := e.Tok(op.Tok)
				t.mu.Lock()
				t.Cancelled = true
				t.mu.Unlock()
				cancel()
			})
		}
	}
	defer func() {
		for _, c := range cancels {
			c()
		}
	}()
	if p.Param("close_after", 0) == 2 {
		e.S.Go("midclose", func() {
			if d := p.Param("long_stall", 0); d > 1 && p.Param("close_in_stall", 0) > 0 {
				// the close lands well inside the stall: by then some writer (a ping, a
				// cancel, a request) sits in a blocked Write with the write lock held
				select {
				case <-stallStarted:
				case <-e.Done:
					return
				}
				time.Sleep(dur(d) / 3)
				simrt.Yield("midclose-wake")
				e.Probe("close-in-the-middle-of-a-write-stall")
				w.Clients[0].Close(e)
				return
			}
			for i := 0; i < 40; i++ {
				simrt.Yield("midclose-delay")
			}
			w.Clients[0].Close(e)
		})
	}
	if !e.S.Settle(400 * time.Millisecond) {
		return
	}
	if d := p.Param("long_stall", 0); d > 0 {
		if d == 1 {
			d = int64(3e9) // replay files written before the stall length became a parameter
		}
		if !e.S.Settle(dur(d) + time.Second) {
			return
		}
	}
	e.N.Heal()
	if !e.S.Settle(600 * time.Millisecond) {
		return
	}
	// a connection that is still up (no fault killed it, nobody closed it) must not
	// end inside a frame or message: a slow peer is no reason to truncate a message
	for _, pipe := range w.WSPipes() {
		for _, dir := range []string{"c2s", "s2c"} {
			e.N.Lock()
			alive, pending := pipe.Alive(), pipe.TapOf(dir).Pending()
			e.N.Unlock()
			if alive && pending {
				e.Violate("C14.wire", "pipe c%d %s: the connection is up and idle but the byte stream ends inside a frame / fragmented message (truncated message)", pipe.ID, dir)
			}
		}
	}
	if p.Param("close_after", 0) >= 1 {
		for _, c := range w.Clients {
			c := c
			if called, _ := c.closeState(); !called {
				e.S.Go("endclose-"+c.Name, func() { c.Close(e) })
			}
		}
		if !e.S.Settle(300 * time.Millisecond) {
			return
		}
	}
	w.CheckWireWellFormed("C14.wire")
	if p.Family == "healthy" && p.Param("close_after", 0) != 2 && len(p.Faults) == 0 {
		w.CheckOwnResults("C14.results-intact", false)
	}
	w.Teardown()
}
