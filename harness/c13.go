package harness

import (
	"bytes"
	"context"
	"encoding/json"
	"fmt"
	"io"
	"net/http"
	"strings"
	"time"

	"verifsim/simrt"
)

// C13 — a panicking handler fails only its own call.
// Fault kind: handler-panic(payload). Siblings are queued, running or streaming
// when it happens; ws and http; reverse handlers on the client side too.

func init() {
	register(&Scenario{Prop: "C13", Gen: genC13, Run: runC13,
		Nontrivial: func(r *RunRes) bool { return r.Probes["handler-panics"] > 0 && r.NOps >= 3 }})
}

var panicKinds = []string{"string", "error", "custom", "nilmap", "nilderef", "index", "nil", "bigstring", "abort", "ctxerr", "eof"}

func genC13(r *simrt.RNG, tier string, variant int) Plan {
	p := Plan{Family: "healthy", Params: map[string]int64{}}
	p.Servers = []ServerPlan{{Addr: "srv0:1", PingNs: Pick(r, []int64{0, -1}), Reverse: r.Bool(0.4), Tracer: r.Bool(0.3)}}
	p.Clients = []ClientPlan{{Name: "A", Kind: "ws", Server: 0, Reverse: p.Servers[0].Reverse}}
	switch r.Intn(3) {
	case 0:
		p.Clients = append(p.Clients, ClientPlan{Name: "B", Kind: "http", Server: 0})
	case 1:
		p.Clients = append(p.Clients, ClientPlan{Name: "B", Kind: "ws", Server: 0, Reverse: p.Servers[0].Reverse})
	}
	tok := 1
	n := 3 + r.Intn(8)
	for i := 0; i < n; i++ {
		ci := r.Intn(len(p.Clients))
		ws := p.Clients[ci].Kind == "ws"
		op := Op{Client: ci, Tok: tok, Hold: r.Bool(0.5)}
		tok++
		switch x := r.Intn(10); {
		case x < 5:
			op.Kind = "call"
			op.Size = Pick(r, []int{0, 100, 5000})
			op.Err = r.Bool(0.15)
		case x < 6:
			op.Kind = "notify"
		case x < 8 && ws:
			op.Kind = "sub"
			op.N = Pick(r, []int{2, 10, 40})
			op.Hold = false
		case x < 9 && ws && p.Servers[0].Reverse:
			op.Kind = "rev"
		default:
			op.Kind = "call"
		}
		if op.Kind == "call" && r.Bool(0.15) {
			op.Kind = "retry" // retry-tagged: a panic is no reason to send the request again
		}
		if r.Bool(0.3) {
			op.Panic = Pick(r, panicKinds)
			if variant >= 0 {
				op.Panic = panicKinds[variant%len(panicKinds)]
			}
			op.Err = false
			if op.Kind == "call" && r.Bool(0.3) {
				// the caller cancels first, the (held) handler panics afterwards
				op.Kind, op.Hold = "ctx", true
				op.Cancel = 1 + Pick(r, []int{0, 2, 6})
			}
		}
		p.Ops = append(p.Ops, op)
	}
	for i := 0; i < 3; i++ { // afterwards
		p.Ops = append(p.Ops, Op{Kind: "call", Client: i % len(p.Clients), Tok: tok, Phase: 1, Size: 10})
		tok++
	}
	if r.Bool(0.3) {
		// a JSON-RPC batch posted over HTTP (and through HandleRequest) in which one
		// element's handler panics: its siblings in the same batch keep their replies
		nb := 2 + r.Intn(4)
		p.Params["batch_n"] = int64(nb)
		p.Params["batch_panic_at"] = int64(r.Intn(nb))
		p.Params["batch_first_tok"] = int64(tok)
		p.Params["batch_kind"] = int64(r.Intn(len(panicKinds)))
	}
	return p
}

func runC13(e *Env, p *Plan) {
	w, err := e.Build(p)
	if err != nil {
		e.Violate("setup", "building the world failed on a healthy network: %v", err)
		return
	}
	var cancels []context.CancelFunc
	defer func() {
		for _, c := range cancels {
			c()
		}
	}()
	for _, op := range p.Ops {
		op := op
		if op.Phase == 0 {
			if op.Panic != "" {
				e.Probe("handler-panics")
			}
			if op.Cancel > 0 {
				ctx, cancel := context.WithCancel(context.Background())
				cancels = append(cancels, cancel)
				w.Start(op, ctx)
				e.S.Go("cancel-"+itoa(op.Tok), func() {
					for i := 1; i < op.Cancel; i++ {
						simrt.Yield("cancel-delay")
					}
					e.Probe("cancelled-before-panic")
					t := e.Tok(op.Tok)
					t.mu.Lock()
					t.Cancelled = true
					t.mu.Unlock()
					cancel()
				})
				continue
			}
			w.Start(op, nil)
		}
	}
	if !e.S.Settle(3 * time.Second) {
		return
	}
	for _, op := range p.Ops {
		if op.Phase == 1 {
			w.Start(op, nil)
		}
	}
	if !e.S.Settle(3 * time.Second) {
		return
	}
	if nb := int(p.Param("batch_n", 0)); nb > 0 {
		c13Batch(e, w, p, nb)
	}
	w.CheckAllReturned("C13.every-call-returns")
	w.CheckOwnResults("C13.siblings-unaffected", false)
	for _, op := range p.Ops {
		t := e.Tok(op.Tok)
		if !t.Returned {
			continue
		}
		switch op.Kind {
		case "notify":
			if t.RetErr != nil {
				e.Violate("C13.siblings-unaffected", "notification tok=%d (panic=%q) failed locally: %v", t.ID, op.Panic, t.RetErr)
			}
		case "rev":
			if op.Panic != "" {
				// the reverse handler on the client panicked: the server handler gets an
				// error from its reverse call and passes it on
				if t.RetErr == nil || !strings.Contains(t.RetErr.Error(), "panic") {
					e.Violate("C13.panic-reported", "tok=%d: the client-side reverse handler panicked (%s) but the forward call returned (%q, %v)", t.ID, op.Panic, t.Val, t.RetErr)
				}
			} else if t.RetErr != nil {
				e.Violate("C13.siblings-unaffected", "reverse-calling tok=%d failed: %v", t.ID, t.RetErr)
			}
		case "sub":
			st := e.Sub(op.Tok)
			if op.Panic != "" {
				if t.RetErr == nil || !strings.Contains(t.RetErr.Error(), "panic") {
					e.Violate("C13.panic-reported", "subscription tok=%d: the handler panicked (%s) but the call returned err=%v", t.ID, op.Panic, t.RetErr)
				}
				continue
			}
			if t.RetErr != nil {
				e.Violate("C13.siblings-unaffected", "subscription tok=%d failed: %v", t.ID, t.RetErr)
			} else if !op.Stall && (len(st.Received) != op.N || !st.Closed) {
				e.Violate("C13.siblings-unaffected", "subscription tok=%d: received %d of %d, closed=%v", t.ID, len(st.Received), op.N, st.Closed)
			}
		}
		if t.Execs != 1 && op.Kind != "rev" && !t.Cancelled {
			e.Violate("C13.siblings-unaffected", "tok=%d (%s): handler ran %d times", t.ID, op.Kind, t.Execs)
		}
	}
	w.Teardown()
}

// c13Batch posts a batch of nb calls, one of which panics, over HTTP and then
// through RPCServer.HandleRequest, and checks the reply element by element.
func c13Batch(e *Env, w *World, p *Plan, nb int) {
	first, at := int(p.Param("batch_first_tok", 9000)), int(p.Param("batch_panic_at", 0))
	kind := panicKinds[int(p.Param("batch_kind", 0))%len(panicKinds)]
	hc := &http.Client{Transport: &http.Transport{DialContext: e.N.Dialer(false), DisableKeepAlives: true}}
	for mode := 0; mode < 2; mode++ {
		var elems []string
		base := first + mode*nb
		for i := 0; i < nb; i++ {
			op := Op{Kind: "call", Tok: base + i, Client: 99}
			if i == at {
				op.Panic = kind
			}
			w.Register(op)
			elems = append(elems, fmt.Sprintf(`{"jsonrpc":"2.0","id":%d,"method":"T.Call","params":[%d]}`, base+i, base+i))
		}
		body := "[" + strings.Join(elems, ",") + "]"
		e.Probe("http-batch-with-a-panicking-element")
		var reply string
		if mode == 0 {
			resp, err := hc.Post("http://"+p.Servers[0].Addr+"/rpc", "application/json", strings.NewReader(body))
			if err != nil {
				e.Violate("C13.siblings-unaffected", "batch with a panicking element: the POST failed at transport level: %v", err)
				continue
			}
			b, _ := io.ReadAll(resp.Body)
			resp.Body.Close()
			reply = string(b)
		} else {
			var out bytes.Buffer
			w.Servers[0].RPC.HandleRequest(context.Background(), strings.NewReader(body), &out)
			reply = out.String()
		}
		var rs []struct {
			ID     int             `json:"id"`
			Result json.RawMessage `json:"result"`
			Error  *struct {
				Message string `json:"message"`
			} `json:"error"`
		}
		if err := json.Unmarshal([]byte(reply), &rs); err != nil {
			e.Violate("C13.siblings-unaffected", "batch of %d with a panicking element at %d: the reply is not a JSON array of responses (%v): %q", nb, at, err, trunc(reply))
			continue
		}
		got := map[int]int{}
		for i, r := range rs {
			got[r.ID] = i + 1
		}
		for i := 0; i < nb; i++ {
			k := got[base+i]
			switch {
			case k == 0:
				e.Violate("C13.siblings-unaffected", "batch of %d with a panicking element at %d: no reply for element %d: %q", nb, at, i, trunc(reply))
			case i == at && (rs[k-1].Error == nil || !strings.Contains(rs[k-1].Error.Message, "panic")):
				e.Violate("C13.panic-reported", "batch: the panicking element %d was answered without an error mentioning the panic: %q", i, trunc(reply))
			case i != at && (rs[k-1].Error != nil || !strings.Contains(string(rs[k-1].Result), fmt.Sprintf("R%d:", base+i))):
				e.Violate("C13.siblings-unaffected", "batch: element %d next to the panicking one lost its reply: %q", i, trunc(reply))
			}
		}
	}
}
