package harness

import (
	"context"
	"errors"
	"fmt"
	"io"
	"math"
	"net/http"
	"runtime/pprof"
	"strconv"
	"strings"
	"sync"
	"time"

	jsonrpc "github.com/filecoin-project/go-jsonrpc"

	"verifsim/simrt"
)

// API is the server-side handler object. What each invocation does is decided
// by the plan entry of its token.
type API struct {
	e *Env
}

func connOf(ctx context.Context) string {
	if v, ok := pprof.Label(ctx, "jrpc-remote"); ok {
		// "sim-peer-of-S-<n>"
		if i := strings.LastIndex(v, "-"); i >= 0 {
			return "c" + v[i+1:]
		}
		return v
	}
	return "http"
}

type customPanic struct{ A, B int }

func doPanic(kind string, tok int) {
	switch kind {
	case "string":
		panic("boom-" + strconv.Itoa(tok))
	case "error":
		panic(fmt.Errorf("boomerr-%d", tok))
	case "custom":
		panic(customPanic{tok, 7})
	case "nilmap":
		var m map[string]int
		m["x"] = tok
	case "nilderef":
		var p *customPanic
		_ = p.A
	case "index":
		var s []int
		_ = s[tok]
	case "nil":
		panic(nil)
	case "bigstring":
		panic("boom-" + strconv.Itoa(tok) + ":" + Result(tok, 20000))
	case "abort":
		panic(http.ErrAbortHandler) // the sentinel net/http treats specially
	case "ctxerr":
		panic(context.Canceled)
	case "eof":
		panic(io.EOF)
	}
}

func (a *API) enter(ctx context.Context, tok int) *Tok {
	t := a.e.Tok(tok)
	t.mu.Lock()
	t.Execs++
	t.Conns = append(t.Conns, connOf(ctx))
	t.HCtx = append(t.HCtx, ctx)
	t.HStart = append(t.HStart, a.e.S.Step())
	hold, sl := t.Hold, t.SleepNs
	t.mu.Unlock()
	simrt.Rec("hstart", strconv.Itoa(tok), connOf(ctx), 0)
	if sl > 0 {
		time.Sleep(time.Duration(sl))
		// several handlers may wake at the same fake instant: let the scheduler,
		// not the Go runtime, decide who runs first from here
		simrt.Yield("handler-wake-" + strconv.Itoa(tok))
	}
	if hold {
		simrt.Yield("handler-" + strconv.Itoa(tok))
	}
	t.mu.Lock()
	gate := t.Gate
	if t.Kind == "rev" || t.Kind == "revsub" {
		gate = nil // for reverse-calling ops the gate holds the client-side handler / producer
	}
	t.mu.Unlock()
	if gate != nil {
		<-gate
		// a gate releases all its waiters at once: from here the scheduler, not the
		// Go runtime, decides who runs first
		simrt.Yield("gate-wake-" + strconv.Itoa(tok))
	}
	return t
}

func (a *API) leave(t *Tok) {
	t.mu.Lock()
	t.HEnd = append(t.HEnd, a.e.S.Step())
	t.mu.Unlock()
	simrt.Rec("hend", strconv.Itoa(t.ID), "", 0)
}

func (a *API) Call(ctx context.Context, tok int) (string, error) {
	t := a.enter(ctx, tok)
	defer a.leave(t)
	if t.Panic != "" {
		doPanic(t.Panic, tok)
	}
	if t.Err {
		return "", errors.New(ErrText(tok))
	}
	return Result(tok, t.Size), nil
}

// CallBig is Call with a large argument (a request that spans many chunks).
func (a *API) CallBig(ctx context.Context, tok int, pad string) (string, error) {
	t := a.enter(ctx, tok)
	defer a.leave(t)
	if pad != Result(tok, len(pad)) {
		return "", fmt.Errorf("argument corrupted (len %d)", len(pad))
	}
	return Result(tok, t.Size), nil
}

func (a *API) Notify(ctx context.Context, tok int) {
	t := a.enter(ctx, tok)
	defer a.leave(t)
	if t.Panic != "" {
		doPanic(t.Panic, tok)
	}
}

// Add is the shared-state object for the linearizability check: the handler
// adds delta to a counter and returns the new total.
func (a *API) Add(ctx context.Context, tok int, delta int64) (int64, error) {
	t := a.enter(ctx, tok)
	defer a.leave(t)
	a.e.mu.Lock()
	a.e.Counter += delta
	v := a.e.Counter
	a.e.mu.Unlock()
	return v, nil
}

// SubState is the fate of one subscription.
type SubState struct {
	Tok       int
	mu        sync.Mutex
	Produced  []int
	Received  []int
	ProdDone  bool // producer closed its channel
	ProdAbort bool // producer gave up because the handler context ended
	Closed    bool // the caller's channel was observed closed
	ClosedAt  uint64
	Handed    bool // the subscribing call returned a channel to the caller
	HandedAt  uint64
	RecvAfter int // values received after close (impossible on a Go channel; kept for symmetry)
	Ctx       context.Context
}

func (e *Env) Sub(tok int) *SubState {
	e.mu.Lock()
	defer e.mu.Unlock()
	s := e.Subs[tok]
	if s == nil {
		s = &SubState{Tok: tok}
		e.Subs[tok] = s
	}
	return s
}

func SubVal(tok, k int) int { return tok*100000 + k }

func (a *API) Sub(ctx context.Context, tok int) (<-chan int, error) {
	t := a.enter(ctx, tok)
	defer a.leave(t)
	if t.Panic != "" {
		doPanic(t.Panic, tok)
	}
	if t.Err {
		return nil, errors.New(ErrText(tok))
	}
	st := a.e.Sub(tok)
	st.mu.Lock()
	st.Ctx = ctx
	st.mu.Unlock()
	ch := make(chan int)
	n := t.N
	pctx := ctx
	if t.IgnoreCtx {
		// a handler is free to ignore the cancellation of its context and keep
		// sending; it only stops when the harness tears the world down
		pctx = doneCtx{a.e.Done}
	}
	a.e.S.Go("prod-"+strconv.Itoa(tok), func() {
		ctx := pctx
		gap := time.Duration(t.GapNs)
		for k := 0; k < n; k++ {
			if gap > 0 {
				time.Sleep(gap)
			}
			simrt.Yield("produce")
			select {
			case <-ctx.Done():
				st.mu.Lock()
				st.ProdAbort = true
				st.mu.Unlock()
				return
			default:
			}
			v := SubVal(tok, k)
			select {
			case ch <- v:
				st.mu.Lock()
				st.Produced = append(st.Produced, v)
				st.mu.Unlock()
				simrt.Rec("produced", strconv.Itoa(tok), "", int64(v))
			case <-ctx.Done():
				st.mu.Lock()
				st.ProdAbort = true
				st.mu.Unlock()
				return
			}
		}
		simrt.Yield("produce-close")
		close(ch)
		st.mu.Lock()
		st.ProdDone = true
		st.mu.Unlock()
		simrt.Rec("prodclose", strconv.Itoa(tok), "", 0)
	})
	return ch, nil
}

// Payload is the byte sequence a reader-carrying call uploads.
func Payload(tok, n int) []byte {
	b := make([]byte, n)
	for i := range b {
		b[i] = byte((i*31 + tok*7 + i/251) % 251)
	}
	return b
}

func fnv(b []byte) uint32 {
	h := uint32(2166136261)
	for _, c := range b {
		h ^= uint32(c)
		h *= 16777619
	}
	return h
}

// ReadAll consumes a reader parameter with the read pattern planned for the
// token (Tok.N) and reports what it saw: "<len>:<fnv>:<observations>".
func (a *API) ReadAll(ctx context.Context, tok int, r io.Reader) (string, error) {
	t := a.enter(ctx, tok)
	defer a.leave(t)
	a.e.Arrive() // barrier family: nobody reads before every handler has its stream
	var got []byte
	obs := ""
	readAll := func(bufSize int) error {
		buf := make([]byte, bufSize)
		for {
			n, err := r.Read(buf)
			got = append(got, buf[:n]...)
			if err == io.EOF {
				return nil
			}
			if err != nil {
				return err
			}
			if n == 0 {
				simrt.Yield("reader-zero")
			}
		}
	}
	past := func(k int) {
		// let the world move on first: the upload handler has been released by the
		// first EOF and net/http closes the request body behind it
		simrt.Yield("after-eof")
		for i := 0; i < k; i++ {
			n, err := r.Read(make([]byte, 16))
			if n != 0 || err != io.EOF {
				obs += fmt.Sprintf("past-eof-read-%d=(%d,%v);", i, n, err)
			} else {
				obs += "eof;"
			}
		}
	}
	var err error
	switch t.N {
	case 0:
		got, err = io.ReadAll(r)
	case 1:
		err = readAll(1)
	case 2:
		err = readAll(7)
	case 3:
		err = readAll(512)
		past(2)
	case 4:
		buf := make([]byte, t.Size/2+1)
		n, _ := io.ReadFull(r, buf)
		got = buf[:n]
		if c, ok := r.(io.Closer); ok {
			obs += fmt.Sprintf("close=%v;", c.Close())
		}
	case 5:
		err = readAll(4096)
		if c, ok := r.(io.Closer); ok {
			obs += fmt.Sprintf("close=%v;", c.Close())
		}
	case 6:
		// explicit Close before the end of the stream, and the usual deferred Close on
		// top of it: the second one must be harmless
		buf := make([]byte, t.Size/2+1)
		n, _ := io.ReadFull(r, buf)
		got = buf[:n]
		if c, ok := r.(io.Closer); ok {
			obs += fmt.Sprintf("close=%v;", c.Close())
			simrt.Yield("between-closes")
			obs += fmt.Sprintf("close2=%v;", c.Close() != nil)
		}
		// (a Read after Close is caller misuse and not constrained by the property)
	}
	if err != nil {
		return "", fmt.Errorf("read error: %w", err)
	}
	return fmt.Sprintf("%d:%08x:%s", len(got), fnv(got), obs), nil
}

// ReadSub takes a reader and returns a channel: the stream is consumed by a
// goroutine that keeps running after the method has returned, and reports the
// length and the hash of what it read as the channel's two values (-1: read error).
func (a *API) ReadSub(ctx context.Context, tok int, r io.Reader) (<-chan int, error) {
	t := a.enter(ctx, tok)
	defer a.leave(t)
	ch := make(chan int)
	a.e.S.Go("rsub-"+strconv.Itoa(tok), func() {
		defer close(ch)
		simrt.Yield("rsub-start")
		var got []byte
		buf := make([]byte, 1024)
		for {
			n, err := r.Read(buf)
			got = append(got, buf[:n]...)
			if err == io.EOF {
				break
			}
			if err != nil {
				simrt.Rec("rsub-error", strconv.Itoa(tok), err.Error(), 0)
				select {
				case ch <- -1:
				case <-a.e.Done:
				}
				return
			}
			simrt.Yield("rsub-read")
		}
		for _, v := range []int{len(got), int(fnv(got))} {
			select {
			case ch <- v:
			case <-a.e.Done:
				return
			}
		}
	})
	return ch, nil
}

// NotifyRevFlood is a notification whose handler subscribes to a stream of the
// calling client and then reads nothing: whatever the client produces piles up on
// the server side until the handler's context is cancelled.
func (a *API) NotifyRevFlood(ctx context.Context, tok int) {
	t := a.enter(ctx, tok)
	defer a.leave(t)
	rc, ok := jsonrpc.ExtractReverseClient[RevClient](ctx)
	if !ok {
		return
	}
	if _, err := rc.SubR(ctx, tok); err != nil {
		return
	}
	select {
	case <-ctx.Done():
	case <-a.e.Done:
	}
}

// NotifyRev is a notification whose handler calls back into the client.
func (a *API) NotifyRev(ctx context.Context, tok int) {
	t := a.enter(ctx, tok)
	defer a.leave(t)
	if rc, ok := jsonrpc.ExtractReverseClient[RevClient](ctx); ok {
		s, err := rc.Who(ctx, tok)
		t.mu.Lock()
		t.RevVal = s
		if err != nil {
			t.RevVal = "reverr:" + err.Error()
		}
		t.mu.Unlock()
	}
}

// SubF streams float64 values; element k == Tok.Size (if > 0) is NaN, which
// encoding/json cannot encode: it is dropped, everything else must arrive.
func (a *API) SubF(ctx context.Context, tok int) (<-chan float64, error) {
	ci, err := a.Sub(ctx, tok)
	if err != nil {
		return nil, err
	}
	t := a.e.Tok(tok)
	out := make(chan float64)
	id := simrt.Spawn("subf-adapter")
	go simrt.RunG(id, func() {
		defer close(out)
		for v := range ci {
			f := float64(v)
			if t.Size > 0 && v%100000 == t.Size {
				f = math.NaN()
			}
			// cancellation first: a select with two ready cases is decided by the Go
			// runtime's own random choice, which no seed controls
			if ctx.Err() != nil {
				for range ci {
				}
				return
			}
			select {
			case out <- f:
			case <-ctx.Done():
				for range ci {
				}
				return
			}
		}
	})
	return out, nil
}

// SubElem is the element type of struct-valued streams.
type SubElem struct {
	Tok int    `json:"tok"`
	K   int    `json:"k"`
	Pad string `json:"pad,omitempty"`
	// optional parts, present for some elements only (a function of k): an element
	// must never show content of an earlier or later one
	Opt  *int           `json:"opt,omitempty"`
	Tags []int          `json:"tags,omitempty"`
	M    map[string]int `json:"m,omitempty"`
}

// FillOptional sets the optional parts element k of stream tok carries.
func (el *SubElem) FillOptional() {
	tok, k := el.Tok, el.K
	if k%3 == 1 {
		v := tok*1000 + k
		el.Opt = &v
	}
	for i := 0; i < k%4; i++ {
		el.Tags = append(el.Tags, k+i)
	}
	if k%5 == 2 {
		el.M = map[string]int{"a": k, "k" + strconv.Itoa(k%3): tok}
	}
}

// OptionalOK reports whether the optional parts are exactly those FillOptional sets.
func (el SubElem) OptionalOK() bool {
	want := SubElem{Tok: el.Tok, K: el.K}
	want.FillOptional()
	if (el.Opt == nil) != (want.Opt == nil) || el.Opt != nil && *el.Opt != *want.Opt {
		return false
	}
	if len(el.Tags) != len(want.Tags) || len(el.M) != len(want.M) {
		return false
	}
	for i := range el.Tags {
		if el.Tags[i] != want.Tags[i] {
			return false
		}
	}
	for k, v := range want.M {
		if g, ok := el.M[k]; !ok || g != v {
			return false
		}
	}
	return true
}

// SubT is Sub with a struct element type and variable element size.
func (a *API) SubT(ctx context.Context, tok int) (<-chan SubElem, error) {
	ci, err := a.Sub(ctx, tok)
	if err != nil {
		return nil, err
	}
	t := a.e.Tok(tok)
	out := make(chan SubElem)
	id := simrt.Spawn("subt-adapter")
	go simrt.RunG(id, func() {
		defer close(out)
		for v := range ci {
			el := SubElem{Tok: tok, K: v % 100000}
			if t.Size > 0 {
				el.Pad = Result(v, t.Size)
			}
			el.FillOptional()
			if ctx.Err() != nil { // see SubF: never leave the choice to the runtime
				for range ci {
				}
				return
			}
			select {
			case out <- el:
			case <-ctx.Done():
				// keep draining so that the producer is never blocked by us
				for range ci {
				}
				return
			}
		}
	})
	return out, nil
}

// doneCtx is a context that is done only when the harness is torn down.
type doneCtx struct{ done chan struct{} }

func (d doneCtx) Deadline() (time.Time, bool) { return time.Time{}, false }
func (d doneCtx) Done() <-chan struct{}       { return d.done }
func (d doneCtx) Err() error {
	select {
	case <-d.done:
		return context.Canceled
	default:
		return nil
	}
}
func (d doneCtx) Value(interface{}) interface{} { return nil }

// SlowVal is a result whose JSON encoding takes fake time (a very large or
// expensive-to-encode result).
type SlowVal struct {
	Tok   int
	Sleep time.Duration
}

func (v SlowVal) MarshalJSON() ([]byte, error) {
	if v.Sleep > 0 {
		time.Sleep(v.Sleep)
		simrt.Yield("slowval-wake-" + strconv.Itoa(v.Tok))
	}
	return []byte(strconv.Quote(Result(v.Tok, 0))), nil
}

// Slow returns a value that is slow to encode (Tok.SleepNs of fake time).
func (a *API) Slow(ctx context.Context, tok int) (SlowVal, error) {
	t := a.e.Tok(tok)
	t.mu.Lock()
	t.Execs++
	t.HCtx = append(t.HCtx, ctx)
	t.HStart = append(t.HStart, a.e.S.Step())
	sl := t.SleepNs
	t.mu.Unlock()
	defer a.leave(t)
	return SlowVal{Tok: tok, Sleep: time.Duration(sl)}, nil
}

// RevClient is the proxy the server uses to call back into a client.
type RevClient struct {
	Who      func(ctx context.Context, tok int) (string, error)
	WhoAlias func(ctx context.Context, tok int) (string, error)
	WhoTag   func(ctx context.Context, tok int) (string, error) `rpc_method:"R.Who"`
	WhoRetry func(ctx context.Context, tok int) (string, error) `rpc_method:"R.Who" retry:"true"`
	SubR     func(ctx context.Context, tok int) (<-chan int, error)
}

// RevHandler is the client-side handler object for reverse calls.
type RevHandler struct {
	e    *Env
	name string
}

func (h *RevHandler) Who(ctx context.Context, tok int) (string, error) {
	simrt.Rec("revh", strconv.Itoa(tok), h.name, 0)
	t := h.e.Tok(tok)
	if t.Kind == "rev" {
		h.e.Arrive() // many-pending family: answer only when every reverse call has arrived
	}
	if t.Hold {
		simrt.Yield("revhandler-" + strconv.Itoa(tok))
	}
	t.mu.Lock()
	gate := t.Gate
	t.mu.Unlock()
	if gate != nil {
		<-gate // released by the scenario (e.g. only after a reconnect)
		simrt.Yield("revgate-wake-" + strconv.Itoa(tok))
	}
	if t.Panic != "" && t.Kind == "rev" {
		doPanic(t.Panic, tok)
	}
	return h.name + "/" + strconv.Itoa(tok), nil
}

// SubR is the client-side handler of a reverse subscription: the client
// streams Tok.N values to the server. The producer ignores the cancellation of
// its context (a handler is free to), so it may outlive the connection it was
// started on; Tok.Gate, if set, pauses it after its first value.
func (h *RevHandler) SubR(ctx context.Context, tok int) (<-chan int, error) {
	simrt.Rec("revsubh", strconv.Itoa(tok), h.name, 0)
	t := h.e.Tok(tok)
	t.mu.Lock()
	n, gate := t.N, t.Gate
	t.mu.Unlock()
	st := h.e.Sub(tok)
	ch := make(chan int)
	h.e.S.Go("rprod-"+strconv.Itoa(tok), func() {
		for k := 0; k < n; k++ {
			simrt.Yield("rproduce")
			if k == 1 && gate != nil {
				select {
				case <-gate:
					simrt.Yield("rprod-gate-wake")
				case <-h.e.Done:
					return
				}
			}
			select {
			case ch <- SubVal(tok, k):
				st.mu.Lock()
				st.Produced = append(st.Produced, SubVal(tok, k))
				st.mu.Unlock()
				simrt.Rec("rproduced", strconv.Itoa(tok), "", int64(SubVal(tok, k)))
			case <-h.e.Done:
				return
			}
		}
		simrt.Yield("rproduce-close")
		close(ch)
		st.mu.Lock()
		st.ProdDone = true
		st.mu.Unlock()
	})
	return ch, nil
}

// RevSub: the server handler subscribes to a stream produced by the calling
// client and reports what it received: "<count>:<first anomaly>".
func (a *API) RevSub(ctx context.Context, tok int) (string, error) {
	t := a.enter(ctx, tok)
	defer a.leave(t)
	rc, ok := jsonrpc.ExtractReverseClient[RevClient](ctx)
	if !ok {
		return "norev", nil
	}
	ch, err := rc.SubR(ctx, tok)
	if err != nil {
		return "", fmt.Errorf("reverr: %w", err)
	}
	n, bad := 0, ""
	for v := range ch {
		if v != SubVal(tok, n) && bad == "" {
			bad = fmt.Sprintf("value %d at position %d", v, n)
		}
		n++
	}
	return fmt.Sprintf("%d:%s", n, bad), nil
}

func (a *API) Rev(ctx context.Context, tok int) (string, error) {
	t := a.enter(ctx, tok)
	defer a.leave(t)
	rc, ok := jsonrpc.ExtractReverseClient[RevClient](ctx)
	if !ok {
		return "norev", nil
	}
	// a handler may keep the reverse client and call it with a context of its
	// own: then only the library's own bookkeeping can end a call to a client
	// that is gone
	rctx := ctx
	t.mu.Lock()
	if t.IgnoreCtx {
		rctx = context.Background()
	}
	t.mu.Unlock()
	var parts []string
	for i := 0; i < 1+t.N; i++ {
		var s string
		var err error
		switch (i + tok) % 4 {
		case 0:
			s, err = rc.Who(rctx, tok)
		case 1:
			s, err = rc.WhoAlias(rctx, tok)
		case 2:
			s, err = rc.WhoRetry(rctx, tok)
		default:
			s, err = rc.WhoTag(rctx, tok)
		}
		if err != nil {
			return "", fmt.Errorf("reverr: %w", err)
		}
		parts = append(parts, s)
	}
	return strings.Join(parts, ","), nil
}

// ---- clients --------------------------------------------------------------------

type Proxy struct {
	Call      func(ctx context.Context, tok int) (string, error)
	CallRetry func(ctx context.Context, tok int) (string, error) `rpc_method:"T.Call" retry:"true"`
	AliasCall func(ctx context.Context, tok int) (string, error)
	CallBig   func(ctx context.Context, tok int, pad string) (string, error)
	// context-less variants (the library passes a nil context along)
	CallNoCtx      func(tok int) (string, error)            `rpc_method:"T.Call"`
	CallRetryNoCtx func(tok int) (string, error)            `rpc_method:"T.Call" retry:"true"`
	Notify         func(ctx context.Context, tok int) error `notify:"true"`
	Add            func(ctx context.Context, tok int, delta int64) (int64, error)
	Sub            func(ctx context.Context, tok int) (<-chan int, error)
	SubRetry       func(ctx context.Context, tok int) (<-chan int, error) `rpc_method:"T.Sub" retry:"true"`
	SubAlias       func(ctx context.Context, tok int) (<-chan int, error)
	SubT           func(ctx context.Context, tok int) (<-chan SubElem, error)
	Rev            func(ctx context.Context, tok int) (string, error)
	ReadAll        func(ctx context.Context, tok int, r io.Reader) (string, error)
	SubF           func(ctx context.Context, tok int) (<-chan float64, error)
	NotifyRev      func(ctx context.Context, tok int) error `notify:"true"`
	NotifyRevFlood func(ctx context.Context, tok int) error `notify:"true"`
	RevSub         func(ctx context.Context, tok int) (string, error)
	CallNoRetry    func(ctx context.Context, tok int) (string, error) `rpc_method:"T.Call" retry:"false"`
	Slow           func(ctx context.Context, tok int) (string, error)
	ReadAllRetry   func(ctx context.Context, tok int, r io.Reader) (string, error) `rpc_method:"T.ReadAll" retry:"true"`
	ReadSub        func(ctx context.Context, tok int, r io.Reader) (<-chan int, error)
}

// ProxyPre, when merged in front of Proxy, exposes the wire method T.Call once
// more - retry-tagged - before Proxy's untagged Call: every field keeps the
// tags it was declared with, whatever else the client was merged from.
type ProxyPre struct {
	CallRetryFirst func(ctx context.Context, tok int) (string, error) `rpc_method:"T.Call" retry:"true"`
}

type Client struct {
	Name      string
	Kind      string // ws | http | custom
	P         Proxy
	Pre       ProxyPre
	Closer    jsonrpc.ClientCloser
	Transport *http.Transport

	mu          sync.Mutex
	CloseCalled bool
	CloseDone   bool
	CloseAt     uint64
	CloseDoneAt uint64
	CloseDoneT  time.Duration // simulated time at which the closer returned
	FirstPipe   int
}

type ClientOpts struct {
	Kind        string
	NoReconnect bool
	Ping        int64 // ns; 0 = default, <0 disabled
	Timeout     int64 // ns; 0 = default
	BackoffMin  int64
	BackoffMax  int64
	Errors      bool
	Reverse     bool
	KeepAlive   bool // http: reuse connections
	Merged      bool // merge ProxyPre in front of Proxy
	Extra       []jsonrpc.Option
}

func (e *Env) NewClient(name string, srv *Server, o ClientOpts) (*Client, error) {
	c := &Client{Name: name, Kind: o.Kind, FirstPipe: e.N.NumPipes()}
	var opts []jsonrpc.Option
	if o.NoReconnect {
		opts = append(opts, jsonrpc.WithNoReconnect())
	}
	if o.Ping > 0 {
		opts = append(opts, jsonrpc.WithPingInterval(dur(o.Ping)))
	} else if o.Ping < 0 {
		opts = append(opts, jsonrpc.WithPingInterval(0))
	}
	if o.Timeout < 0 {
		opts = append(opts, jsonrpc.WithTimeout(0)) // no read deadline, no idle timer
	} else if o.Timeout != 0 {
		opts = append(opts, jsonrpc.WithTimeout(dur(o.Timeout)))
	}
	if o.BackoffMin > 0 {
		opts = append(opts, jsonrpc.WithReconnectBackoff(dur(o.BackoffMin), dur(o.BackoffMax)))
	}
	if o.Errors {
		opts = append(opts, jsonrpc.WithErrors(jsonrpc.NewErrors()))
	}
	if o.Reverse {
		opts = append(opts, jsonrpc.WithClientHandler("R", &RevHandler{e: e, name: name}))
		opts = append(opts, jsonrpc.WithClientHandlerAlias("R.WhoAlias", "R.Who"))
	}
	opts = append(opts, o.Extra...)
	var err error
	outs := []interface{}{&c.P}
	if o.Merged {
		outs = []interface{}{&c.Pre, &c.P}
	}
	switch o.Kind {
	case "ws":
		c.Closer, err = jsonrpc.NewMergeClient(context.Background(), "ws://"+srv.Addr+"/rpc", "T", outs, nil, opts...)
	case "http":
		c.Transport = &http.Transport{DialContext: e.N.Dialer(false), DisableKeepAlives: !o.KeepAlive, MaxIdleConnsPerHost: 4}
		opts = append(opts, jsonrpc.WithHTTPClient(&http.Client{Transport: c.Transport}))
		c.Closer, err = jsonrpc.NewMergeClient(context.Background(), "http://"+srv.Addr+"/rpc", "T", outs, nil, opts...)
	case "custom":
		c.Closer, err = jsonrpc.NewCustomClient("T", outs, func(ctx context.Context, body []byte) (io.ReadCloser, error) {
			pr, pw := io.Pipe()
			id := simrt.Spawn("custom")
			go simrt.RunG(id, func() {
				srv.RPC.HandleRequest(ctx, strings.NewReader(string(body)), pw)
				pw.Close()
			})
			return pr, nil
		}, opts...)
	default:
		err = fmt.Errorf("unknown client kind %q", o.Kind)
	}
	if err != nil {
		return nil, err
	}
	e.mu.Lock()
	e.clients = append(e.clients, c)
	e.mu.Unlock()
	return c, nil
}

// Close invokes the client's closer and records when it was called / returned.
func (c *Client) Close(e *Env) {
	c.mu.Lock()
	if c.CloseCalled {
		c.mu.Unlock()
		return
	}
	c.CloseCalled = true
	c.CloseAt = e.S.Step()
	c.mu.Unlock()
	simrt.Rec("close-invoke", c.Name, "", 0)
	c.Closer()
	c.mu.Lock()
	c.CloseDone = true
	c.CloseDoneAt = e.S.Step()
	c.CloseDoneT = e.S.Now()
	c.mu.Unlock()
	simrt.Rec("close-return", c.Name, "", 0)
	if c.Transport != nil {
		c.Transport.CloseIdleConnections()
	}
}

func (c *Client) closeState() (called, done bool) {
	c.mu.Lock()
	defer c.mu.Unlock()
	return c.CloseCalled, c.CloseDone
}
