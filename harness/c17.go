package harness

import (
	"fmt"
	"sync"
	"time"

	"verifsim/simnet"

	"verifsim/simrt"
)

// C17 — keepalive keeps healthy links up and detects silent peers in bounded time.
// Families: "healthy" (latency << ping interval; calls of any duration, idle
// gaps, slow streams, slow large frames) and "blackhole" (the peer falls silent).

func init() {
	register(&Scenario{Prop: "C17", Gen: genC17, Run: runC17,
		Nontrivial: func(r *RunRes) bool { return r.Ticks > 10 }})
}

var c17Timeouts = []int64{int64(20e6), int64(100e6), int64(1e9), int64(5e9), int64(12e9), int64(30e9), int64(60e9)}

func genC17(r *simrt.RNG, tier string, variant int) Plan {
	p := Plan{Params: map[string]int64{}}
	p.Family = "healthy"
	if r.Bool(0.4) {
		p.Family = "blackhole"
	} else if r.Bool(0.3) {
		// the same healthy-link oracle, but on a connection that was re-established
		// after one reset: everything the keepalive needs must be set up again
		p.Family = "healthy-after-reconnect"
	}
	T := Pick(r, c17Timeouts)
	if variant >= 0 {
		T = c17Timeouts[variant%len(c17Timeouts)]
	}
	P := Pick(r, []int64{T / 10, T / 4, int64(float64(T) / 2.2)})
	// the server's pings are what a client with an un-answered ping sees; keep
	// them below half the timeout too (or disable them: then pongs come back)
	S := Pick(r, []int64{-1, T / 4, int64(float64(T) / 2.5)})
	if T > int64(10e9) && r.Bool(0.3) {
		S = 0 // library default, 5 s
	}
	p.Servers = []ServerPlan{{Addr: "srv0:1", PingNs: S}}
	cp := ClientPlan{Name: "A", Kind: "ws", Server: 0, PingNs: P, TimeoutNs: T,
		BackoffMin: Pick(r, []int64{int64(1e6), T / 20, T / 4}), Errors: r.Bool(0.5)}
	if T == int64(30e9) && r.Bool(0.3) {
		cp.TimeoutNs, cp.PingNs, P = 0, 0, int64(5e9) // library defaults
	}
	if cp.BackoffMin < int64(1e6) {
		cp.BackoffMin = int64(1e6)
	}
	cp.BackoffMax = cp.BackoffMin * 2
	p.Clients = []ClientPlan{cp}
	p.Params["T"], p.Params["P"] = T, P
	// link: latency <= P/10; optionally bandwidth-limited so that a large frame takes long
	minPing := P
	if S > 0 && S < minPing {
		minPing = S
	}
	p.Params["lat_max_ns"] = Pick(r, []int64{0, minPing / 100, minPing / 10})
	// Deliberately no bandwidth-limited link here. Observation (not a finding, the
	// property does not quantify over link speed): a frame whose transfer takes
	// longer than the timeout is killed by the main loop's idle timer although
	// autoResetReader keeps the read deadline alive, because the pongs queue
	// behind the frame. See DESIGN.md section 6.
	tok := 1
	if r.Bool(0.3) {
		// a result that takes longer than the timeout to encode (healthy family only)
		p.Ops = append(p.Ops, Op{Kind: "slow", Client: 0, Tok: 90, Phase: r.Intn(3), SleepNs: int64(float64(T) * Pick(r, []float64{0.5, 1.5, 3}))})
	}
	nc := 2 + r.Intn(4)
	for i := 0; i < nc; i++ {
		op := Op{Kind: "call", Client: 0, Tok: tok, Phase: r.Intn(3)}
		op.SleepNs = int64(float64(T) * Pick(r, []float64{0.01, 0.3, 0.9, 1.5, 3, 5}))
		op.Size = Pick(r, []int{0, 100, 5000})
		if p.Params["rate"] > 0 && r.Bool(0.5) {
			op.Size = 60000
		}
		p.Ops = append(p.Ops, op)
		tok++
	}
	if r.Bool(0.5) {
		n := 2 + r.Intn(5)
		p.Ops = append(p.Ops, Op{Kind: "sub", Client: 0, Tok: tok, N: n, GapNs: int64(float64(T) * Pick(r, []float64{0.1, 0.8, 2.5}))})
		tok++
	}
	if p.Family == "healthy-after-reconnect" {
		if cp.BackoffMin < T/200 {
			// a redial every millisecond of a long outage only burns steps
			p.Clients[0].BackoffMin, p.Clients[0].BackoffMax = T/200, T/100
		}
		p.Params["down_ns"] = int64(float64(T) * Pick(r, []float64{0, 0, 0.45, 0.8, 1.3, 2.6, 3.15}))
	}
	p.Params["gap1"] = int64(float64(T) * Pick(r, []float64{0.5, 3, 20}))
	p.Params["gap2"] = int64(float64(T) * Pick(r, []float64{0.1, 2, 8}))
	if p.Family == "blackhole" {
		p.Faults = []Fault{{Kind: Pick(r, []string{"blackhole-both", "blackhole"}), Dir: "s2c", Pipe: 0, Frame: -1}}
		p.Params["bh_after"] = int64(float64(T) * Pick(r, []float64{0.05, 0.7, 2.3, 6}))
		if r.Bool(0.4) {
			p.Params["chatter"] = 1
		}
		if r.Bool(0.3) {
			// the peer falls silent on a connection that has just been re-established,
			// before a single frame arrived on it
			p.Params["after_reconnect"] = 1
			p.Params["chatter"] = 1
		}
		// calls pending at the black hole must not have been answered yet
		for i := range p.Ops {
			if p.Ops[i].Kind == "call" {
				p.Ops[i].Hold = r.Bool(0.7)
			}
		}
	}
	return p
}

func runC17(e *Env, p *Plan) {
	T, P := dur(p.Param("T", int64(30e9))), dur(p.Param("P", int64(5e9)))
	e.N.Cfg.LatMin, e.N.Cfg.LatMax = 0, dur(p.Param("lat_max_ns", 0))
	e.N.Cfg.Rate = p.Param("rate", 0)
	if e.N.Cfg.Rate > 0 {
		e.N.Cfg.ChunkMax = 0
	}
	// a voluntary clock advance of several seconds while a goroutine is merely
	// "descheduled" is a stalled node, not a healthy link: keep them off here
	e.S.Cfg.TickP = 0
	w, err := e.Build(p)
	if err != nil {
		e.Violate("setup", "building the world failed on a healthy network: %v", err)
		return
	}
	phase := func(k int) {
		for _, op := range p.Ops {
			if op.Phase == k || (k == 0 && op.Kind == "sub") {
				if op.Kind == "sub" && k != 0 {
					continue
				}
				w.Start(op, nil)
			}
		}
	}
	if p.Family == "blackhole" {
		phase(0)
		phase(1)
		phase(2)
		e.S.Sleep(dur(p.Param("bh_after", int64(T))))
		f := p.Faults
		if len(f) == 0 {
			return
		}
		if p.Param("after_reconnect", 0) > 0 {
			var mu sync.Mutex
			var at time.Duration
			seen := 0
			e.N.FaultHook = func(kind string, pipe int) {
				mu.Lock()
				seen++
				if kind == "blackhole-both" && at == 0 {
					at = e.S.Now()
				}
				mu.Unlock()
			}
			// reset the first connection; the next one is black-holed before its first
			// server->client frame is delivered
			e.N.PlanCutNextK(p.Servers[0].Addr, 0, simnet.Cut{Dir: "s2c", Frame: 0, Pos: "before", Kind: "blackhole-both"})
			e.N.Inject(0, "rst", "both", 0)
			ok := e.SettleUntil(func() bool { mu.Lock(); defer mu.Unlock(); return at > 0 }, T/4+time.Millisecond, 3*T+10*dur(p.Clients[0].BackoffMax)+time.Second)
			mu.Lock()
			bhAt := at
			mu.Unlock()
			if !ok || bhAt == 0 {
				return // the server sent nothing on the new connection: no black hole happened
			}
			e.Probe("black-hole-right-after-reconnect")
			f[0].Pipe = e.N.NumPipes() - 1
		} else {
			e.N.Inject(f[0].Pipe, f[0].Kind, f[0].Dir, 0)
		}
		tbh := e.S.Now()
		bound := 3*T + 2*P
		if p.Param("chatter", 0) > 0 {
			// the application keeps calling while the peer is silent: outgoing
			// traffic must not be mistaken for a sign of life
			e.S.Go("chatter", func() {
				for i := 0; i < 12; i++ {
					w.Start(Op{Kind: "call", Client: 0, Tok: 500 + i}, nil)
					time.Sleep(T / 3)
				}
			})
			e.Probe("calls-keep-coming-during-black-hole")
		}
		if !e.S.Settle(bound + 2*dur(p.Clients[0].BackoffMax) + time.Second) {
			return
		}
		for _, t := range e.SortedToks() {
			if !t.Invoked || t.Kind != "call" || t.InvokeT > tbh {
				continue
			}
			if !t.Returned {
				e.Violate("C17.silent-peer-detected", "tok=%d was pending when the peer fell silent at %v; %v (3*timeout+2*ping) later it still has not failed (timeout=%v ping=%v)", t.ID, tbh, bound, T, P)
				continue
			}
			if t.ReturnT > tbh && t.ReturnT-tbh > bound {
				e.Violate("C17.silent-peer-detected", "tok=%d returned %v after the peer fell silent, bound %v", t.ID, t.ReturnT-tbh, bound)
			}
			if t.ReturnT > tbh && t.RetErr == nil && t.HEndCount() == 0 {
				e.Violate("C17.silent-peer-detected", "tok=%d returned a value although its handler never finished", t.ID)
			}
			if t.RetErr != nil && !isConnErr(t.RetErr) {
				e.Violate("C17.silent-peer-detected", "tok=%d failed with something other than the connection error: %v", t.ID, t.RetErr)
			}
		}
		redial := false
		for i, d := range e.N.Dials() {
			if i > 0 && d.At >= tbh {
				redial = true
				if d.At-tbh > bound+2*dur(p.Clients[0].BackoffMax)+time.Second {
					e.Violate("C17.silent-peer-detected", "first redial %v after the peer fell silent (bound %v)", d.At-tbh, bound)
				}
				break
			}
		}
		if !redial {
			e.Violate("C17.silent-peer-detected", "no redial attempt within %v of the peer falling silent", bound)
		}
		w.Teardown()
		return
	}

	// healthy family
	allowed := 1
	if p.Family == "healthy-after-reconnect" {
		// optionally the server stays unreachable for a while (from well below to
		// several times the timeout), so that the new connection is installed at
		// an arbitrary moment relative to whatever timers the old one left behind
		down := dur(p.Param("down_ns", 0))
		if down > 0 {
			e.N.SetDown(p.Servers[0].Addr, true)
		}
		e.N.Inject(0, "rst", "both", 0)
		if down > 0 {
			e.S.Sleep(down)
			e.N.SetDown(p.Servers[0].Addr, false)
			e.Probe("reconnect-after-outage")
		}
		if !e.S.Settle(2*T + 4*dur(p.Clients[0].BackoffMax) + time.Second) {
			return
		}
		okDials, lastOK := 0, time.Duration(0)
		for _, d := range e.N.Dials() {
			if d.Outcome == "ok" {
				okDials++
				if okDials == 3 {
					lastOK = d.At
				}
			}
		}
		if okDials < 2 {
			e.Violate("C17.silent-peer-detected", "the connection was reset but the client did not reconnect within 2*timeout")
			return
		}
		if okDials > 2 {
			// one reset, one new connection: a further successful dial means the
			// re-established (healthy) link was dropped again
			e.Violate("C17.healthy-link-kept", "after one reset the client established %d connections (timeout=%v ping=%v server-ping=%v backoff=%v outage=%v): the reconnected healthy link was dropped, redial at %v", okDials, T, P, dur(p.Servers[0].PingNs), dur(p.Clients[0].BackoffMin), down, lastOK)
			return
		}
		allowed = len(e.N.Dials())
		e.Probe("healthy-oracle-on-a-reconnected-link")
	}
	e.Invariant("C17.healthy-link-kept", func() string {
		if d := e.N.Dials(); len(d) > allowed {
			return fmt.Sprintf("the client dialed again on a healthy link (timeout=%v ping=%v server-ping=%v, %d connection(s) before): redial at %v", T, P, dur(p.Servers[0].PingNs), allowed, d[allowed].At)
		}
		return ""
	})
	phase(0)
	e.S.Sleep(dur(p.Param("gap1", int64(T))))
	phase(1)
	e.S.Sleep(dur(p.Param("gap2", int64(T))))
	phase(2)
	if !e.S.Settle(18*T + time.Second) {
		return
	}
	// idle tail
	e.S.Sleep(dur(p.Param("gap1", int64(T))))
	if !e.S.Settle(time.Millisecond) {
		return
	}
	if d := e.N.Dials(); len(d) != allowed {
		at := time.Duration(0)
		if len(d) > allowed {
			at = d[allowed].At
		}
		e.Violate("C17.healthy-link-kept", "the client dialed %d times on a healthy link (timeout=%v ping=%v server-ping=%v): first redial at %v", len(d), T, P, dur(p.Servers[0].PingNs), at)
	}
	w.CheckAllReturned("C17.healthy-call-returns")
	w.CheckOwnResults("C17.healthy-call-succeeds", false)
	for _, op := range p.Ops {
		if op.Kind != "sub" {
			continue
		}
		st := e.Sub(op.Tok)
		if st.Handed && (len(st.Received) != op.N || !st.Closed) {
			e.Violate("C17.healthy-stream-kept", "subscription tok=%d: received %d of %d values, closed=%v", op.Tok, len(st.Received), op.N, st.Closed)
		}
	}
	w.Teardown()
}

func (t *Tok) HEndCount() int {
	t.mu.Lock()
	defer t.mu.Unlock()
	return len(t.HEnd)
}
