package harness

import (
	"bytes"
	"context"
	"errors"
	"fmt"
	"io"
	"strconv"
	"strings"
	"time"

	jsonrpc "github.com/filecoin-project/go-jsonrpc"

	"verifsim/simnet"
	"verifsim/simrt"
)

func dur(ns int64) time.Duration { return time.Duration(ns) }

// Plan is the generated (and minimisable) description of one run's workload
// and faults. Scenarios must tolerate any subset of Ops and Faults.
type Plan struct {
	Prop    string           `json:"prop"`
	Family  string           `json:"family"`
	Servers []ServerPlan     `json:"servers"`
	Clients []ClientPlan     `json:"clients"`
	Ops     []Op             `json:"ops"`
	Faults  []Fault          `json:"faults"`
	Params  map[string]int64 `json:"params,omitempty"`
}

type ServerPlan struct {
	Addr    string `json:"addr"`
	PingNs  int64  `json:"ping_ns"`
	Reverse bool   `json:"reverse,omitempty"`
	MaxReq  int64  `json:"max_req,omitempty"`
	Tracer  bool   `json:"tracer,omitempty"`
}

type ClientPlan struct {
	Name        string `json:"name"`
	Kind        string `json:"kind"`
	Server      int    `json:"server"`
	NoReconnect bool   `json:"no_reconnect,omitempty"`
	PingNs      int64  `json:"ping_ns,omitempty"`
	TimeoutNs   int64  `json:"timeout_ns,omitempty"`
	BackoffMin  int64  `json:"backoff_min,omitempty"`
	BackoffMax  int64  `json:"backoff_max,omitempty"`
	Errors      bool   `json:"errors,omitempty"`
	Reverse     bool   `json:"reverse,omitempty"`
	KeepAlive   bool   `json:"keepalive,omitempty"`
	Merged      bool   `json:"merged,omitempty"` // the proxy is merged from two structs that share the wire method T.Call
}

type Op struct {
	Kind      string `json:"kind"` // call retry alias notify add sub subretry rev
	Client    int    `json:"client"`
	Tok       int    `json:"tok"`
	Size      int    `json:"size,omitempty"`
	Err       bool   `json:"err,omitempty"`
	Panic     string `json:"panic,omitempty"`
	Delta     int64  `json:"delta,omitempty"`
	N         int    `json:"n,omitempty"`
	Hold      bool   `json:"hold,omitempty"`
	Phase     int    `json:"phase,omitempty"`
	Cancel    int    `json:"cancel,omitempty"`     // 0 none; k>0: a cancel task exists, started in phase k-1.. (scenario specific)
	SleepNs   int64  `json:"sleep_ns,omitempty"`   // handler takes this much fake time
	GapNs     int64  `json:"gap_ns,omitempty"`     // sub: producer pause between values
	Raw       string `json:"raw,omitempty"`        // C10: hostile frame / body text
	Group     int    `json:"group,omitempty"`      // C06: ops with the same group share one cancellable context
	IgnoreCtx bool   `json:"ignore_ctx,omitempty"` // sub: producer ignores cancellation
	Stall     bool   `json:"stall,omitempty"`      // sub: the consumer never reads
	Consume   int    `json:"consume,omitempty"`    // sub: stop reading after k values (0 = all)
	Alias     bool   `json:"alias,omitempty"`      // sub: subscribe through the server-side alias T.SubAlias
	Src       int    `json:"src,omitempty"`        // reader: 0 bytes.Reader, 1 section reader at an offset, 2 length-less reader, 3 partly consumed bytes.Reader
}

type Fault struct {
	Kind   string `json:"kind"`   // fin rst blackhole blackhole-both stall wstall refuse hang down
	Client int    `json:"client"` // which client's current connection (-1: pipe index in Pipe)
	Pipe   int    `json:"pipe"`
	Dir    string `json:"dir,omitempty"`
	Frame  int    `json:"frame"` // -1: immediate when the fault task runs
	Pos    string `json:"pos,omitempty"`
	DurNs  int64  `json:"dur_ns,omitempty"`
	N      int    `json:"n,omitempty"`
	Phase  int    `json:"phase,omitempty"`
}

func (p *Plan) Param(k string, def int64) int64 {
	if v, ok := p.Params[k]; ok {
		return v
	}
	return def
}

// World is the instantiated plan.
type World struct {
	E       *Env
	P       *Plan
	Servers []*Server
	Clients []*Client
}

func (e *Env) Build(p *Plan) (*World, error) {
	w := &World{E: e, P: p}
	for _, sp := range p.Servers {
		w.Servers = append(w.Servers, e.NewServer(sp.Addr, ServerOpts{PingInterval: dur(sp.PingNs), Reverse: sp.Reverse, MaxReq: sp.MaxReq, Tracer: sp.Tracer}))
	}
	for _, cp := range p.Clients {
		if cp.Server >= len(w.Servers) {
			return nil, fmt.Errorf("client %s: no server %d", cp.Name, cp.Server)
		}
		c, err := e.NewClient(cp.Name, w.Servers[cp.Server], ClientOpts{Kind: cp.Kind, NoReconnect: cp.NoReconnect, Ping: cp.PingNs,
			Timeout: cp.TimeoutNs, BackoffMin: cp.BackoffMin, BackoffMax: cp.BackoffMax, Errors: cp.Errors, Reverse: cp.Reverse, KeepAlive: cp.KeepAlive, Merged: cp.Merged})
		if err != nil {
			return nil, fmt.Errorf("client %s: %w", cp.Name, err)
		}
		w.Clients = append(w.Clients, c)
	}
	return w, nil
}

// Register copies the op's plan into the token table (handlers look it up).
func (w *World) Register(op Op) *Tok {
	t := w.E.Tok(op.Tok)
	t.mu.Lock()
	t.Kind, t.Size, t.Err, t.Panic, t.Delta, t.N, t.Hold = op.Kind, op.Size, op.Err, op.Panic, op.Delta, op.N, op.Hold
	t.SleepNs, t.GapNs, t.IgnoreCtx = op.SleepNs, op.GapNs, op.IgnoreCtx
	if op.Client < len(w.Clients) {
		t.Client = w.Clients[op.Client].Name
	}
	t.mu.Unlock()
	return t
}

// Start launches the op as its own harness task. ctx may be nil for Background.
func (w *World) Start(op Op, ctx context.Context) {
	if op.Client >= len(w.Clients) {
		return
	}
	w.Register(op)
	w.E.S.Go("call-"+strconv.Itoa(op.Tok), func() { w.Exec(op, ctx) })
}

// Exec performs the op in the calling goroutine.
func (w *World) Exec(op Op, ctx context.Context) {
	if op.Client >= len(w.Clients) {
		return
	}
	c := w.Clients[op.Client]
	t := w.E.Tok(op.Tok)
	if ctx == nil {
		ctx = context.Background()
	}
	e := w.E
	{
		t.mu.Lock()
		t.Invoked = true
		t.InvokeAt = e.S.Step()
		t.InvokeT = e.S.Now()
		t.mu.Unlock()
		simrt.Rec("invoke", strconv.Itoa(op.Tok), op.Kind, 0)
		var val string
		var ival int64
		var err error
		switch op.Kind {
		case "call", "ctx":
			val, err = c.P.Call(ctx, op.Tok)
		case "call-retryfalse":
			val, err = c.P.CallNoRetry(ctx, op.Tok)
		case "slow":
			val, err = c.P.Slow(ctx, op.Tok)
		case "callbig":
			val, err = c.P.CallBig(ctx, op.Tok, Result(op.Tok, op.N))
		case "retry":
			val, err = c.P.CallRetry(ctx, op.Tok)
		case "retry-noctx":
			val, err = c.P.CallRetryNoCtx(op.Tok)
		case "call-noctx":
			val, err = c.P.CallNoCtx(op.Tok)
		case "alias":
			val, err = c.P.AliasCall(ctx, op.Tok)
		case "notify":
			err = c.P.Notify(ctx, op.Tok)
		case "add":
			ival, err = c.P.Add(ctx, op.Tok, op.Delta)
		case "rev":
			val, err = c.P.Rev(ctx, op.Tok)
		case "revsub":
			val, err = c.P.RevSub(ctx, op.Tok)
		case "reader":
			val, err = c.P.ReadAll(ctx, op.Tok, readerSource(op))
		case "readersub":
			var rc <-chan int
			rc, err = c.P.ReadSub(ctx, op.Tok, readerSource(op))
			if err == nil && rc != nil {
				var vs []int
				for v := range rc {
					vs = append(vs, v)
				}
				if len(vs) == 2 {
					val = fmt.Sprintf("%d:%08x:", vs[0], uint32(vs[1]))
				} else {
					val = fmt.Sprintf("%v", vs)
				}
			}
		case "reader-retry":
			val, err = c.P.ReadAllRetry(ctx, op.Tok, readerSource(op))
		case "notifyrev":
			err = c.P.NotifyRev(ctx, op.Tok)
		case "notifyrevflood":
			err = c.P.NotifyRevFlood(ctx, op.Tok)
		case "subf":
			var cf <-chan float64
			cf, err = c.P.SubF(ctx, op.Tok)
			if err == nil && cf != nil {
				st := e.Sub(op.Tok)
				st.mu.Lock()
				st.Handed = true
				st.HandedAt = e.S.Step()
				st.mu.Unlock()
				ci := make(chan int)
				id := simrt.Spawn("subf-client-adapter")
				go simrt.RunG(id, func() {
					defer close(ci)
					for v := range cf {
						ci <- int(v)
					}
				})
				w.consume(op, ci)
			}
		case "subt":
			var ct <-chan SubElem
			ct, err = c.P.SubT(ctx, op.Tok)
			if err == nil && ct != nil {
				st := e.Sub(op.Tok)
				st.mu.Lock()
				st.Handed = true
				st.HandedAt = e.S.Step()
				st.mu.Unlock()
				ci := make(chan int)
				id := simrt.Spawn("subt-client-adapter")
				go simrt.RunG(id, func() {
					defer close(ci)
					var kept []SubElem // elements already delivered must not change afterwards
					for v := range ct {
						val := SubVal(v.Tok, v.K)
						if op.Size > 0 && v.Pad != Result(val, op.Size) || !v.OptionalOK() {
							val = -val - 1 // corrupted payload
						}
						kept = append(kept, v)
						ci <- val
					}
					for _, v := range kept {
						if !v.OptionalOK() {
							ci <- -1000000 - v.K // an element changed after it had been delivered
							break
						}
					}
				})
				w.consume(op, ci)
			}
		case "sub", "subretry":
			var ch <-chan int
			if op.Kind == "sub" && op.Alias {
				ch, err = c.P.SubAlias(ctx, op.Tok)
			} else if op.Kind == "sub" {
				ch, err = c.P.Sub(ctx, op.Tok)
			} else {
				ch, err = c.P.SubRetry(ctx, op.Tok)
			}
			if err == nil && ch != nil {
				st := e.Sub(op.Tok)
				st.mu.Lock()
				st.Handed = true
				st.HandedAt = e.S.Step()
				st.mu.Unlock()
				w.consume(op, ch)
			}
		}
		t.mu.Lock()
		t.Returned = true
		t.ReturnAt = e.S.Step()
		t.ReturnT = e.S.Now()
		t.Val, t.IVal, t.RetErr = val, ival, err
		if err != nil {
			t.RetErrText = err.Error()
		}
		t.mu.Unlock()
		es := ""
		if err != nil {
			es = err.Error()
		}
		simrt.Rec("return", strconv.Itoa(op.Tok), es, ival)
	}
}

func (w *World) consume(op Op, ch <-chan int) {
	e := w.E
	st := e.Sub(op.Tok)
	if op.Stall {
		t := e.Tok(op.Tok)
		t.mu.Lock()
		gate := t.ConsGate
		t.mu.Unlock()
		if gate == nil {
			return // never reads
		}
		// reads nothing until the scenario opens the gate, then drains
		e.S.Go("cons-"+strconv.Itoa(op.Tok), func() {
			select {
			case <-gate:
				simrt.Yield("consgate-wake")
			case <-e.Done:
				return
			}
			for v := range ch {
				st.mu.Lock()
				st.Received = append(st.Received, v)
				st.mu.Unlock()
			}
			st.mu.Lock()
			st.Closed = true
			st.ClosedAt = e.S.Step()
			st.mu.Unlock()
			simrt.Rec("subclosed", strconv.Itoa(op.Tok), "", 0)
		})
		return
	}
	e.S.Go("cons-"+strconv.Itoa(op.Tok), func() {
		n := 0
		for {
			simrt.Yield("consume")
			v, ok := <-ch
			if !ok {
				st.mu.Lock()
				st.Closed = true
				st.ClosedAt = e.S.Step()
				st.mu.Unlock()
				simrt.Rec("subclosed", strconv.Itoa(op.Tok), "", 0)
				return
			}
			st.mu.Lock()
			st.Received = append(st.Received, v)
			st.mu.Unlock()
			simrt.Rec("received", strconv.Itoa(op.Tok), "", int64(v))
			n++
			if op.Consume > 0 && n >= op.Consume {
				return
			}
		}
	})
}

// Teardown closes every client and stops every server (under the scheduler), so
// that the bubble can drain.
func (w *World) Teardown() {
	w.E.ClearInvariants()
	w.E.doneOnce.Do(func() { close(w.E.Done) })
	for _, c := range w.Clients {
		if called, _ := c.closeState(); !called {
			c := c
			w.E.S.Go("teardown-close-"+c.Name, func() { c.Close(w.E) })
		}
	}
	if !w.E.S.Settle(time.Second) {
		return
	}
	for _, s := range w.Servers {
		s.Stop()
	}
	w.E.S.Settle(time.Second)
}

// ---- common oracles ---------------------------------------------------------------

func isConnErr(err error) bool {
	if err == nil {
		return false
	}
	var ce *jsonrpc.RPCConnectionError
	if errors.As(err, &ce) {
		return true
	}
	s := err.Error()
	return strings.Contains(s, "websocket connection closed") || strings.Contains(s, "websocket routine exiting") ||
		strings.Contains(s, "sendRequest")
}

// CheckAllReturned is the hang oracle over calls: call it after Settle(H).
func (w *World) CheckAllReturned(oracle string) {
	for _, t := range w.E.SortedToks() {
		t.mu.Lock()
		inv, ret := t.Invoked, t.Returned
		t.mu.Unlock()
		if inv && !ret {
			w.E.Violate(oracle, "call tok=%d kind=%s on %s invoked at step %d never returned (quiescent, %v of fake time after the last event)", t.ID, t.Kind, t.Client, t.InvokeAt, H)
		}
	}
}

// CheckOwnResults: a returned value must be the handler's value for that very
// token; an error must be that token's error (or, if allowConnErr, a connection error).
func (w *World) CheckOwnResults(oracle string, allowConnErr bool) {
	for _, t := range w.E.SortedToks() {
		t.mu.Lock()
		ret, val, err := t.Returned, t.Val, t.RetErr
		kind, size, wantErr, pnc := t.Kind, t.Size, t.Err, t.Panic
		errText := t.RetErrText
		t.mu.Unlock()
		if !ret {
			continue
		}
		if err != nil && err.Error() != errText {
			// an error is a value handed to one caller: nothing that happens to other
			// calls afterwards may change it
			w.E.Violate(oracle, "tok=%d: the error this call returned has changed since: it was %q, it now reads %q (error object shared between calls)", t.ID, errText, err.Error())
			continue
		}
		switch kind {
		case "call", "retry", "alias", "ctx", "retry-noctx", "call-noctx", "callbig", "call-retryfalse", "slow":
		default:
			continue
		}
		if err != nil {
			if allowConnErr && isConnErr(err) {
				continue
			}
			if pnc != "" {
				if t.Cancelled {
					continue // a cancelled caller may see its own cancellation instead
				}
				if !strings.Contains(err.Error(), "panic") {
					w.E.Violate(oracle, "tok=%d: handler panicked (%s) but the caller's error does not mention it: %q", t.ID, pnc, err.Error())
				}
				continue
			}
			if t.Cancelled {
				continue
			}
			if !wantErr {
				w.E.Violate(oracle, "tok=%d: unexpected error %q (handler returns a value)", t.ID, err.Error())
			} else if err.Error() != ErrText(t.ID) {
				w.E.Violate(oracle, "tok=%d: got error %q, want %q (foreign or mangled error)", t.ID, err.Error(), ErrText(t.ID))
			}
			continue
		}
		if wantErr || pnc != "" {
			w.E.Violate(oracle, "tok=%d: handler failed (err=%v panic=%q) but the caller got value %q and nil error", t.ID, wantErr, pnc, trunc(val))
			continue
		}
		if want := Result(t.ID, size); val != want {
			w.E.Violate(oracle, "tok=%d: got %q, want %q (foreign or corrupted result)", t.ID, trunc(val), trunc(want))
		}
	}
}

func trunc(s string) string {
	if len(s) > 48 {
		return s[:48] + "…(" + strconv.Itoa(len(s)) + ")"
	}
	return s
}

// WSPipes returns the WS pipes in creation order.
func (w *World) WSPipes() []*simnet.Pipe {
	var out []*simnet.Pipe
	for _, p := range w.E.N.Pipes() {
		if p.WS {
			out = append(out, p)
		}
	}
	return out
}

func itoa(i int) string { return strconv.Itoa(i) }

// readerSource builds the io.Reader a reader-carrying call passes: always the
// same byte sequence Payload(tok, size) from the current position to EOF, but
// through reader types net/http sizes differently (or not at all), some of
// them positioned behind a prefix the caller has already consumed.
func readerSource(op Op) io.Reader {
	pay := Payload(op.Tok, op.Size)
	k := 1 + (op.Tok*37+op.Size)%4000
	pre := make([]byte, k)
	for i := range pre {
		pre[i] = byte('p' + i%7)
	}
	switch op.Src {
	case 1:
		sr := io.NewSectionReader(bytes.NewReader(append(pre, pay...)), 0, int64(k+len(pay)))
		_, _ = sr.Seek(int64(k), io.SeekStart)
		return sr
	case 2:
		return struct{ io.Reader }{bytes.NewReader(pay)}
	case 3:
		br := bytes.NewReader(append(pre, pay...))
		_, _ = io.ReadFull(br, make([]byte, k))
		return br
	}
	return bytes.NewReader(pay)
}
