package harness

import (
	"encoding/json"
	"fmt"
	"os"
	"runtime"
	"sort"
	"strings"
	"testing"
	"testing/synctest"
	"time"

	"verifsim/simrt"
)

// Scenario is one property's workload generator + executable scenario.
type Scenario struct {
	Prop string
	// Families lists the workload families; Gen draws a plan of one family.
	Gen func(r *simrt.RNG, tier string, variant int) Plan
	Run func(e *Env, p *Plan)
	// Nontrivial classifies a finished run for the evidence (distinct & non-trivial count).
	Nontrivial func(res *RunRes) bool
}

var Scenarios = map[string]*Scenario{}

func register(s *Scenario) { Scenarios[s.Prop] = s }

type RunReq struct {
	Prop    string
	Seed    uint64
	Tier    string
	Variant int // thorough sweeps: systematic dimension index (-1 none)
	Replay  *ReplayFile
	Lenient bool
	Trace   string // file to stream decisions to (record mode)
	Dump    string // file to write the replay skeleton to before running
	Verbose bool
}

type ReplayFile struct {
	Prop      string      `json:"property"`
	Seed      uint64      `json:"seed"`
	Tier      string      `json:"tier"`
	Variant   int         `json:"variant"`
	Cfg       RunCfg      `json:"cfg"`
	Plan      Plan        `json:"plan"`
	Decisions []string    `json:"decisions"`
	Violation []Violation `json:"violations,omitempty"`
	Crash     string      `json:"crash,omitempty"`
	Tree      string      `json:"tree,omitempty"`
	Note      string      `json:"note,omitempty"`
}

type RunRes struct {
	Seed       uint64         `json:"seed"`
	Variant    int            `json:"variant"`
	Verdict    string         `json:"verdict"` // ok | violation | inconclusive | machinery
	Violations []Violation    `json:"violations,omitempty"`
	Aborted    string         `json:"aborted,omitempty"`
	Steps      int            `json:"steps"`
	Ticks      int            `json:"ticks"`
	FakeNs     int64          `json:"fake_ns"`
	Hash       string         `json:"hash"`
	HistHash   string         `json:"hist_hash"`
	Fired      map[string]int `json:"fired,omitempty"`
	Probes     map[string]int `json:"probes,omitempty"`
	Parks      map[string]int `json:"parks,omitempty"`
	Pairs      int            `json:"pairs"`
	PairSet    []string       `json:"-"`
	Preempt    int            `json:"preempt"`
	Anon       int            `json:"anon"`
	Leftover   int            `json:"leftover"`
	Family     string         `json:"family,omitempty"`
	Policy     string         `json:"policy,omitempty"`
	NOps       int            `json:"nops"`
	NFaults    int            `json:"nfaults"`
	ReplayPath string         `json:"replay,omitempty"`
	Sample     *Plan          `json:"sample,omitempty"`
	WallUs     int64          `json:"wall_us"`
	PairHash   []uint64       `json:"-"`
	Nontrivial bool           `json:"nontrivial"`
}

// RunOne executes one simulated run in its own synctest bubble.
func RunOne(t *testing.T, req RunReq) (res RunRes) {
	sc := Scenarios[req.Prop]
	if sc == nil {
		return RunRes{Seed: req.Seed, Verdict: "machinery", Aborted: "unknown property " + req.Prop}
	}
	t0 := time.Now()
	root := simrt.NewRNG(req.Seed)
	var cfg RunCfg
	var plan Plan
	var follow []string
	if req.Replay != nil {
		cfg, plan, follow = req.Replay.Cfg, req.Replay.Plan, req.Replay.Decisions
	} else {
		cfg = GenRunCfg(root.Sub("cfg"))
		plan = sc.Gen(root.Sub("plan"), req.Tier, req.Variant)
		plan.Prop = req.Prop
	}
	if v := plan.Param("max_steps", 0); v > 0 {
		cfg.MaxSteps = int(v)
	}
	if plan.Param("coarse", 0) > 0 && req.Replay == nil {
		cfg.FineMod = 0 // bulk workloads: statement-level parks would only burn the step budget
	}
	if req.Dump != "" {
		rf := ReplayFile{Prop: req.Prop, Seed: req.Seed, Tier: req.Tier, Variant: req.Variant, Cfg: cfg, Plan: plan}
		b, _ := json.Marshal(rf)
		_ = os.WriteFile(req.Dump, b, 0o644)
	}
	res = RunRes{Seed: req.Seed, Variant: req.Variant, Family: plan.Family, Policy: cfg.Policy, NOps: len(plan.Ops), NFaults: len(plan.Faults)}
	var env *Env
	var traceF *os.File
	if req.Trace != "" {
		traceF, _ = os.Create(req.Trace)
	}
	base := runtime.NumGoroutine()
	func() {
		defer func() {
			if r := recover(); r != nil {
				s := fmt.Sprint(r)
				if strings.Contains(s, "deadlock: main bubble goroutine has exited") || strings.Contains(s, "blocked goroutines remain") {
					res.Leftover = -1
					return
				}
				res.Verdict = "machinery"
				res.Aborted = "panic in harness: " + s
			}
		}()
		synctest.Test(t, func(t *testing.T) {
			env = NewEnv(req.Seed, cfg, follow, req.Lenient)
			if traceF != nil {
				env.S.TraceOut = func(s string) { fmt.Fprintln(traceF, s) }
			} else if req.Verbose {
				env.S.TraceAll = os.Getenv("SIM_VERBOSE") == "2"
				env.S.TraceOut = func(s string) { fmt.Fprintln(os.Stderr, s) }
			}
			env.S.Run(func() { sc.Run(env, &plan) })
			if env.S.Aborted != "" {
				// cut short (cap or invariant): do not let the world free-run; the
				// process is abandoned instead
				env.S.Detach()
				res.Leftover = 1
				fill(&res, env, req, cfg, plan, t0)
				emit(res)
				EmitPairs()
				os.Exit(75)
			}
			// teardown: free-running; give timers a chance to expire
			synctest.Wait()
			for i := 0; i < 4 && runtime.NumGoroutine() > base+2; i++ {
				if len(env.Violations()) > 0 || runtime.NumGoroutine() > base+2+400 {
					// a scenario that returned at its first violation leaves its world
					// running (clients not closed): the verdict is final, abandon the process;
					// hundreds of leaked connections pinging each other: letting them
					// free-run for minutes of fake time takes minutes of real time and
					// cannot end with an empty bubble anyway
					break
				}
				time.Sleep(2 * time.Minute)
				synctest.Wait()
			}
			res.Leftover = runtime.NumGoroutine() - base - 2
			env.S.Detach()
			if res.Leftover > 0 {
				// goroutines remain (possibly ticking): the bubble cannot be left.
				fill(&res, env, req, cfg, plan, t0)
				if os.Getenv("SIM_LEFTOVER_STACKS") != "" {
					buf := make([]byte, 1<<20)
					os.Stderr.Write(buf[:runtime.Stack(buf, true)])
				}
				emit(res)
				EmitPairs()
				os.Exit(75)
			}
		})
	}()
	if traceF != nil {
		traceF.Close()
	}
	if env != nil && res.Verdict != "machinery" {
		fill(&res, env, req, cfg, plan, t0)
	}
	res.WallUs = time.Since(t0).Microseconds()
	return res
}

func fill(res *RunRes, env *Env, req RunReq, cfg RunCfg, plan Plan, t0 time.Time) {
	s := env.S
	res.Steps, res.Ticks, res.FakeNs = s.Stats.Steps, s.Stats.Ticks, s.Stats.FakeNanos
	res.Hash = fmt.Sprintf("%016x", s.Hash())
	var hh uint64
	for _, ev := range s.History() {
		hh = simrt.HashStr(hh, fmt.Sprintf("%d|%s|%s|%s|%s|%d", ev.Step, ev.G, ev.Kind, ev.A, ev.B, ev.N))
	}
	res.HistHash = fmt.Sprintf("%016x", hh)
	if os.Getenv("SIM_HISTORY") != "" {
		for _, ev := range s.History() {
			fmt.Fprintf(os.Stderr, "H %6d %-40s %-12s %s %s %d\n", ev.Step, ev.G, ev.Kind, ev.A, ev.B, ev.N)
		}
		for _, d := range env.N.Dials() {
			fmt.Fprintf(os.Stderr, "D step=%d at=%v %s pipe=%d %s\n", d.Step, d.At, d.Outcome, d.Pipe, d.G)
		}
	}
	res.Fired = env.N.Fired
	res.Probes = map[string]int{}
	for k, v := range env.N.Probes {
		res.Probes[k] = v
	}
	for k, v := range env.Probes {
		res.Probes[k] += v
	}
	res.Parks = s.Stats.Parks
	res.Pairs = len(s.Stats.Pairs)
	for k := range s.Stats.Pairs {
		res.PairHash = append(res.PairHash, simrt.HashStr(0, k))
	}
	sort.Slice(res.PairHash, func(i, j int) bool { return res.PairHash[i] < res.PairHash[j] })
	res.Preempt, res.Anon = s.Stats.Preemptions, s.Stats.AnonParks
	for _, h := range res.PairHash {
		pairUnion[h] = struct{}{}
	}
	res.Aborted = s.Aborted
	res.Violations = env.Violations()
	switch {
	case strings.HasPrefix(s.Aborted, "machinery") || strings.HasPrefix(s.Aborted, "diverged"):
		res.Verdict = "machinery"
	case len(res.Violations) > 0:
		res.Verdict = "violation"
	case s.Aborted != "":
		res.Verdict = "inconclusive"
	default:
		res.Verdict = "ok"
	}
	if res.Verdict == "violation" || os.Getenv("SIM_SAVE_ALL") != "" {
		if dir := os.Getenv("SIM_OUT"); dir != "" {
			rf := ReplayFile{Prop: req.Prop, Seed: req.Seed, Tier: req.Tier, Variant: req.Variant, Cfg: cfg, Plan: plan,
				Decisions: s.Decisions, Violation: res.Violations, Tree: os.Getenv("SIM_TREE")}
			b, _ := json.Marshal(rf)
			tag := os.Getenv("SIM_TAG")
			path := fmt.Sprintf("%s/%s-%d%s.json", dir, req.Prop, req.Seed, tag)
			if os.WriteFile(path, b, 0o644) == nil {
				res.ReplayPath = path
			}
		}
	}
	if sc := Scenarios[req.Prop]; sc != nil && sc.Nontrivial != nil {
		res.Nontrivial = res.Verdict != "machinery" && sc.Nontrivial(res)
	}
	if req.Seed%97 == 0 || os.Getenv("SIM_SAMPLE") != "" {
		p := plan
		res.Sample = &p
	}
}

var pairUnion = map[uint64]struct{}{}

// EmitPairs prints the union of <released site | parked sites> hashes seen by
// this process (the pre-emption coverage measure, united by the driver).
func EmitPairs() {
	if len(pairUnion) == 0 {
		return
	}
	var sb strings.Builder
	sb.WriteString("PAIRSET ")
	for h := range pairUnion {
		fmt.Fprintf(&sb, "%x,", h)
	}
	fmt.Println(sb.String())
}

func emit(res RunRes) {
	b, _ := json.Marshal(res)
	fmt.Printf("END %d %s\n", res.Seed, b)
}
