package harness

import (
	"context"
	"encoding/json"
	"fmt"
	"time"

	"verifsim/simrt"
)

// C06 — cancellation reaches exactly the cancelled call's handler, and nothing else.

func init() {
	register(&Scenario{Prop: "C06", Gen: genC06, Run: runC06,
		Nontrivial: func(r *RunRes) bool { return r.Probes["cancel-fired"] > 0 && r.NOps >= 2 }})
}

func genC06(r *simrt.RNG, tier string, variant int) Plan {
	p := Plan{Family: "healthy", Params: map[string]int64{}}
	p.Servers = []ServerPlan{{Addr: "srv0:1", PingNs: Pick(r, []int64{0, -1})}}
	p.Clients = []ClientPlan{{Name: "A", Kind: "ws", Server: 0}}
	switch r.Intn(4) {
	case 0:
		p.Clients = append(p.Clients, ClientPlan{Name: "B", Kind: "ws", Server: 0})
	case 1, 2:
		p.Clients = append(p.Clients, ClientPlan{Name: "B", Kind: "http", Server: 0})
	}
	if r.Bool(0.15) {
		p.Params["sampled"] = 1 // the callers trace their calls with sampled spans
	}
	tok := 1
	if r.Bool(0.3) {
		// a notification whose handler stays busy until the end of the run: cancels
		// (and everything else) on that connection must get through all the same
		p.Ops = append(p.Ops, Op{Kind: "notify", Client: 0, Tok: tok})
		tok++
	}
	n := 2 + r.Intn(7)
	for i := 0; i < n; i++ {
		op := Op{Kind: "ctx", Client: r.Intn(len(p.Clients)), Tok: tok, Hold: r.Bool(0.5), Size: Pick(r, []int{0, 100, 5000})}
		if r.Bool(0.45) {
			op.Cancel = 1 + Pick(r, []int{0, 1, 2, 5, 12, 30, 80})
		}
		p.Ops = append(p.Ops, op)
		tok++
	}
	ns := r.Intn(4)
	for i := 0; i < ns; i++ {
		op := Op{Kind: "sub", Client: 0, Tok: tok, N: Pick(r, []int{1, 2, 5, 40}), GapNs: int64(1e6), Alias: r.Bool(0.25)}
		op.Hold = r.Bool(0.4)                        // the handler returns its channel late (a cancel can land first)
		op.Phase = Pick(r, []int{0, 0, 20, 60, 150}) // staggered: opened after k yields, i.e. while others stream or after they ended
		if p.Clients[len(p.Clients)-1].Kind == "ws" && r.Bool(0.5) {
			op.Client = len(p.Clients) - 1
		}
		if r.Bool(0.5) {
			op.Cancel = 1 + Pick(r, []int{0, 3, 10, 40, 120})
		}
		p.Ops = append(p.Ops, op)
		tok++
	}
	if r.Bool(0.3) {
		// several subscriptions opened with one shared cancellable context
		k := 2 + r.Intn(2)
		cancelAfter := 1 + Pick(r, []int{5, 30, 100, 200})
		for i := 0; i < k; i++ {
			op := Op{Kind: "sub", Client: 0, Tok: tok, N: Pick(r, []int{3, 40}), GapNs: int64(1e6), Group: 1,
				Phase: Pick(r, []int{0, 10, 40})}
			if i == 0 {
				op.Cancel = cancelAfter
			}
			p.Ops = append(p.Ops, op)
			tok++
		}
	}
	if r.Bool(0.25) {
		// the client stops reading for a while: server->client writes block (and a
		// large response keeps the server's write lock busy) while cancels keep flowing
		// (keepalive off on this connection: with pings on, gorilla's pong reply would
		// hit its 1 s write timeout in the stalled direction and the server would
		// drop the connection - a lost connection, not the healthy one C06 is about)
		p.Servers[0].PingNs = -1
		p.Clients[0].PingNs = -1
		p.Clients[0].TimeoutNs = int64(3600e9) // and no idle read deadline either
		p.Faults = append(p.Faults, Fault{Kind: "wstall", Dir: "s2c", Pipe: 0, Frame: -1, Phase: r.Intn(80)})
		p.Ops = append(p.Ops, Op{Kind: "call", Client: 0, Tok: tok, Size: 20500, Phase: Pick(r, []int{0, 20, 60})})
		tok++
	}
	return p
}

func runC06(e *Env, p *Plan) {
	if p.Param("sampled", 0) > 0 {
		defer Sampled()()
		e.Probe("calls-carry-sampled-span-contexts")
	}
	w, err := e.Build(p)
	if err != nil {
		e.Violate("setup", "building the world failed on a healthy network: %v", err)
		return
	}
	gates := map[int]chan struct{}{}
	var cancelAll []context.CancelFunc
	groupCtx := map[int]context.Context{}
	groupCancel := map[int]context.CancelFunc{}
	groupToks := map[int][]int{}
	for _, f := range p.Faults {
		f := f
		if f.Kind == "wstall" {
			e.S.Go("wstall", func() {
				for i := 0; i < f.Phase; i++ {
					simrt.Yield("wstall-delay")
				}
				e.N.Inject(f.Pipe, "wstall", f.Dir, 0)
				e.Probe("client-stopped-reading")
			})
		}
	}
	for _, op := range p.Ops {
		if op.Group > 0 {
			groupToks[op.Group] = append(groupToks[op.Group], op.Tok)
		}
	}
	for _, op := range p.Ops {
		op := op
		t := w.Register(op)
		ctx, cancel := context.WithCancel(context.Background())
		if op.Group > 0 {
			if groupCtx[op.Group] == nil {
				groupCtx[op.Group], groupCancel[op.Group] = ctx, cancel
			}
			ctx, cancel = context.WithValue(groupCtx[op.Group], op.Tok, op.Tok), groupCancel[op.Group]
		}
		cancelAll = append(cancelAll, cancel)
		if op.Kind == "notify" {
			e.Probe("notification-handler-busy-throughout")
		}
		if op.Kind == "ctx" || op.Kind == "notify" || (op.Kind == "sub" && op.Hold) {
			g := make(chan struct{})
			gates[op.Tok] = g
			t.mu.Lock()
			t.Gate = g
			t.mu.Unlock()
		}
		if op.Phase > 0 {
			e.S.Go(fmt.Sprintf("late-start-%d", op.Tok), func() {
				for i := 0; i < op.Phase; i++ {
					simrt.Yield("start-delay")
				}
				w.Exec(op, ctx)
			})
		} else {
			w.Start(op, ctx)
		}
		t.mu.Lock()
		t.Gate = gates[op.Tok] // Start re-registers the plan; keep the gate
		t.mu.Unlock()
		if op.Cancel > 0 {
			e.S.Go(fmt.Sprintf("cancel-%d", op.Tok), func() {
				for i := 1; i < op.Cancel; i++ {
					simrt.Yield("cancel-delay")
				}
				members := []int{op.Tok}
				if op.Group > 0 {
					members = groupToks[op.Group]
					e.Probe("shared-context-cancelled")
				}
				for _, m := range members {
					mt := e.Tok(m)
					mt.mu.Lock()
					mt.Cancelled = true
					mt.CancelAt = e.S.Step()
					mt.mu.Unlock()
				}
				e.Probe("cancel-fired")
				simrt.Rec("cancel", itoa(op.Tok), "", 0)
				cancel()
			})
		}
	}
	defer func() {
		for _, c := range cancelAll {
			c()
		}
	}()
	// (1)+(3) as a run-time invariant: a handler context is done only if the
	// caller cancelled that very call (while the call is in flight / the
	// subscription open on a healthy connection)
	live := func() string {
		for _, t := range e.SortedToks() {
			t.mu.Lock()
			running := len(t.HCtx) > len(t.HEnd)
			var ctx context.Context
			if len(t.HCtx) > 0 {
				ctx = t.HCtx[len(t.HCtx)-1]
			}
			cancelled, kind, ret := t.Cancelled, t.Kind, t.Returned
			t.mu.Unlock()
			if ctx == nil || cancelled {
				continue
			}
			open := running
			if kind == "sub" {
				st := e.Sub(t.ID)
				st.mu.Lock()
				open = !st.ProdDone && !st.ProdAbort && (running || st.Handed)
				st.mu.Unlock()
			}
			if kind == "ctx" && ret {
				open = false
			}
			if open && ctx.Err() != nil {
				return fmt.Sprintf("the handler context of tok=%d (%s on %s) is cancelled although its caller never cancelled it (healthy connection, call in flight)", t.ID, kind, t.Client)
			}
		}
		return ""
	}
	e.Invariant("C06.only-the-cancelled-call", live)
	if !e.S.Settle(5 * time.Second) {
		return
	}
	// every cancel task has fired by now (a parked task keeps Settle from
	// completing); give the last cancel the same time to take effect
	if !e.S.Settle(2 * time.Second) {
		return
	}
	// (2) the cancelled calls' handlers see the cancellation
	for _, op := range p.Ops {
		t := e.Tok(op.Tok)
		t.mu.Lock()
		cancelled := t.Cancelled
		var ctx context.Context
		if len(t.HCtx) > 0 {
			ctx = t.HCtx[len(t.HCtx)-1]
		}
		running := len(t.HCtx) > len(t.HEnd)
		t.mu.Unlock()
		if !cancelled || ctx == nil {
			continue
		}
		switch op.Kind {
		case "ctx":
			if running && ctx.Err() == nil {
				e.Violate("C06.cancel-reaches-handler", "tok=%d on %s (%s): the caller cancelled at step %d, the handler is still running and its context is not cancelled (quiescent, 5 s later)", t.ID, t.Client, p.Clients[op.Client].Kind, t.CancelAt)
			}
		case "sub":
			st := e.Sub(op.Tok)
			st.mu.Lock()
			over := st.ProdDone && !running
			st.mu.Unlock()
			if !over && ctx.Err() == nil {
				e.Violate("C06.cancel-reaches-handler", "subscription tok=%d: the caller cancelled its context at step %d but the handler's context is still live", t.ID, t.CancelAt)
			}
		}
	}
	// (4) wire: cancel frames carry no id and exactly the cancelled request's id
	for _, pipe := range w.WSPipes() {
		reqTok := map[string]int{}
		for _, m := range w.Wire(pipe, "c2s") {
			if m.HasMethod && m.HasID {
				reqTok[m.ID] = tokOfParams(m.Params)
			}
		}
		for _, m := range w.Wire(pipe, "c2s") {
			if m.Method != "xrpc.cancel" {
				continue
			}
			if m.HasID {
				e.Violate("C06.cancel-frame", "cancel frame carries an id: %s", m)
			}
			var ps []json.RawMessage
			if json.Unmarshal(m.Params, &ps) != nil || len(ps) != 1 {
				e.Violate("C06.cancel-frame", "cancel frame params are not [id]: %s", m)
				continue
			}
			tok, ok := reqTok[string(ps[0])]
			if !ok {
				e.Violate("C06.cancel-frame", "cancel frame names id %s which is not a request id of this connection", string(ps[0]))
				continue
			}
			if t := e.Tok(tok); !t.Cancelled {
				e.Violate("C06.cancel-frame", "cancel frame names the request of tok=%d, whose caller never cancelled", tok)
			}
		}
	}
	e.N.Heal()
	for _, g := range gates {
		close(g)
	}
	if !e.S.Settle(5 * time.Second) {
		return
	}
	w.CheckAllReturned("C06.calls-return")
	wsClient := map[string]bool{}
	for _, cp := range p.Clients {
		wsClient[cp.Name] = cp.Kind == "ws"
	}
	for _, t := range e.SortedToks() {
		if (t.Kind == "ctx" || t.Kind == "call") && t.Returned && !t.Cancelled {
			if t.RetErr != nil || t.Val != Result(t.ID, t.Size) {
				e.Violate("C06.sibling-undisturbed", "tok=%d was not cancelled but returned (%q, %v)", t.ID, trunc(t.Val), t.RetErr)
			}
		}
		// a cancelled WebSocket call still waits for, and gets, what its handler
		// produced (these handlers ignore the cancellation and answer when released);
		// it must not return anything the server never sent
		if t.Kind == "ctx" && t.Returned && t.Cancelled && wsClient[t.Client] && t.Execs > 0 {
			if t.RetErr != nil || t.Val != Result(t.ID, t.Size) {
				e.Violate("C06.cancelled-call-gets-its-own-response", "tok=%d was cancelled by its caller; its handler still answered %q, but the call returned (%q, %v)", t.ID, trunc(Result(t.ID, t.Size)), trunc(t.Val), t.RetErr)
			}
		}
	}
	w.Teardown()
}
