package harness

import (
	"context"
	"sync"
	"time"

	"verifsim/simnet"
	"verifsim/simrt"
)

// C18 — closing a client always completes and leaves nothing blocked.
// The closer fires at scheduler step k (quick: random k; thorough: k swept
// over every step index of the workload via the variant number).

func init() {
	register(&Scenario{Prop: "C18", Gen: genC18, Run: runC18,
		Nontrivial: func(r *RunRes) bool { return r.Probes["closer-fired-mid-workload"] > 0 }})
}

func genC18(r *simrt.RNG, tier string, variant int) Plan {
	p := Plan{Family: "healthy", Params: map[string]int64{}}
	p.Servers = []ServerPlan{{Addr: "srv0:1", PingNs: Pick(r, []int64{0, -1, int64(1e9)})}}
	cp := ClientPlan{Name: "A", Kind: "ws", Server: 0, NoReconnect: r.Bool(0.2),
		BackoffMin: Pick(r, []int64{int64(1e6), int64(100e6), int64(1e9)})}
	cp.BackoffMax = cp.BackoffMin * 4
	p.Clients = []ClientPlan{cp}
	if r.Bool(0.35) {
		p.Clients = append(p.Clients, ClientPlan{Name: "B", Kind: Pick(r, []string{"http", "custom"}), Server: 0})
	}
	tok := 1
	floodP := 0.0005 // a flood run costs as much as a thousand ordinary ones
	if tier == "thorough" {
		floodP = 0.004
	}
	if r.Bool(floodP) {
		// a subscriber that stopped reading (its context still live) while the server
		// pushed thousands of values - beyond any plausible internal bound - and then
		// the close. The consumer drains the channel once the closer has returned.
		p.Family = "flood"
		nv := 9000
		if tier == "thorough" {
			nv = Pick(r, []int{2500, 9000, 12000})
		}
		p.Ops = append(p.Ops, Op{Kind: "sub", Client: 0, Tok: tok, N: nv, Stall: true})
		tok++
		p.Ops = append(p.Ops, Op{Kind: "call", Client: 0, Tok: tok, Size: 100, Hold: true})
		tok++
		p.Ops = append(p.Ops, Op{Kind: "call", Client: 0, Tok: tok, Phase: 2})
		p.Params["max_steps"] = int64(nv)*80 + 100000
		p.Params["coarse"] = 1
		p.Params["close_step"] = int64(nv)*80 + 100000 // i.e. at quiescence, after the last value
		return p
	}
	n := 3 + r.Intn(6)
	for i := 0; i < n; i++ {
		op := Op{Client: 0, Tok: tok, Hold: r.Bool(0.6)}
		tok++
		switch x := r.Intn(10); {
		case x < 5:
			op.Kind = "call"
			op.Size = Pick(r, []int{0, 100, 4096, 20000, 70000})
			op.Err = r.Bool(0.1)
			if r.Bool(0.3) {
				op.Kind = "ctx" // the caller cancels this call's context at some point
				op.Cancel = 1 + Pick(r, []int{0, 3, 15, 60, 200})
			}
		case x < 6:
			op.Kind = "retry"
		case x < 7:
			op.Kind = "notify"
		default:
			op.Kind = "sub"
			op.N = Pick(r, []int{0, 1, 3, 40})
			op.Hold = false
		}
		if len(p.Clients) > 1 && r.Bool(0.3) && op.Kind != "sub" && op.Kind != "retry" {
			op.Client = 1
		}
		p.Ops = append(p.Ops, op)
	}
	for i := 0; i < 2; i++ { // late calls, issued after the closer returned
		p.Ops = append(p.Ops, Op{Kind: Pick(r, []string{"call", "call", "sub", "notify"}), Client: 0, Tok: tok, Phase: 2, N: 2})
		tok++
	}
	if len(p.Clients) > 1 {
		p.Ops = append(p.Ops, Op{Kind: "call", Client: 1, Tok: tok, Phase: 2})
		tok++
	}
	if r.Bool(0.4) {
		p.Family = "faulty"
		p.Faults = append(p.Faults, Fault{Kind: Pick(r, []string{"fin", "rst", "stall"}), Dir: Pick(r, []string{"c2s", "s2c"}), Pipe: 0,
			Frame: r.Intn(8), Pos: Pick(r, cutPos), DurNs: int64(40e9)})
		if f := &p.Faults[len(p.Faults)-1]; f.Kind == "stall" && r.Bool(0.5) {
			// the peer stops sending for good, possibly in the middle of a frame, and
			// the client has no time-out of its own: the closer must return all the same,
			// long before anything heals
			f.Dir, f.DurNs = "s2c", 0 // 0: stalled until the network is healed
			f.Pos = Pick(r, []string{"mid", "mid", "header", "last", "after"})
			p.Clients[0].TimeoutNs = -1
			p.Params["closer_before_heal"] = 1
			p.Params["close_step"] = int64(200 + r.Intn(1200))
			return p
		}
		switch r.Intn(3) {
		case 0:
			p.Faults = append(p.Faults, Fault{Kind: "refuse", N: 2 + r.Intn(6), Frame: -1})
		case 1:
			p.Faults = append(p.Faults, Fault{Kind: "hang", N: 1, Frame: -1})
		}
	}
	if p.Family == "faulty" && r.Bool(0.4) {
		// a second and third drop on the re-established connections before the close
		p.Faults = append(p.Faults, Fault{Kind: Pick(r, []string{"fin", "rst"}), Dir: "s2c", Pipe: -2, Phase: 1, Frame: r.Intn(3), Pos: "after"})
		if r.Bool(0.5) {
			p.Faults = append(p.Faults, Fault{Kind: Pick(r, []string{"fin", "rst"}), Dir: "s2c", Pipe: -2, Phase: 2, Frame: r.Intn(3), Pos: "after"})
		}
		p.Params["close_step"] = int64(200 + r.Intn(1200))
		return p
	}
	p.Params["close_step"] = int64(r.Intn(500))
	if r.Bool(0.3) {
		p.Params["close_step"] = int64(r.Intn(60))
	}
	if variant >= 0 {
		p.Params["close_step"] = int64(variant % 600)
	}
	return p
}

func runC18(e *Env, p *Plan) {
	w, err := e.Build(p)
	if err != nil {
		e.Violate("setup", "building the world failed on a healthy network: %v", err)
		return
	}
	addr := p.Servers[0].Addr
	for _, f := range p.Faults {
		switch f.Kind {
		case "refuse":
			e.N.RefuseNext(addr, f.N)
		case "hang":
			e.N.HangNext(addr, f.N)
		default:
			if f.Pipe == -2 {
				e.N.PlanCutNextK(addr, f.Phase-1, simnet.Cut{Dir: f.Dir, Frame: f.Frame, Pos: f.Pos, Kind: f.Kind})
				continue
			}
			e.N.PlanCut(f.Pipe, simnet.Cut{Dir: f.Dir, Frame: f.Frame, Pos: f.Pos, Kind: f.Kind, Dur: dur(f.DurNs)})
		}
	}
	closeGo := make(chan struct{})
	var once sync.Once
	fire := func() { once.Do(func() { close(closeGo) }) }
	k := uint64(p.Param("close_step", 100))
	setupSteps := e.S.Step()
	e.AtStep(setupSteps+k, func() {
		e.Probe("closer-fired-mid-workload")
		fire()
	})
	closedC := make(chan struct{})
	for _, c := range w.Clients {
		c := c
		e.S.Go("closer-"+c.Name, func() {
			<-closeGo
			simrt.Yield("closer-wake-" + c.Name)
			c.Close(e)
			if c.Name == "A" {
				close(closedC)
			}
		})
	}
	var cancels []context.CancelFunc
	defer func() {
		for _, c := range cancels {
			c()
		}
	}()
	for _, op := range p.Ops {
		op := op
		if op.Phase == 0 && op.Cancel > 0 {
			ctx, cancel := context.WithCancel(context.Background())
			cancels = append(cancels, cancel)
			w.Start(op, ctx)
			e.S.Go("cancel-"+itoa(op.Tok), func() {
				for i := 1; i < op.Cancel; i++ {
					simrt.Yield("cancel-delay")
				}
				t := e.Tok(op.Tok)
				t.mu.Lock()
				t.Cancelled = true
				t.mu.Unlock()
				e.Probe("ctx-cancelled-around-close")
				cancel()
			})
			continue
		}
		if op.Phase == 0 && op.Stall && p.Family == "flood" {
			tk := w.Register(op)
			tk.mu.Lock()
			tk.ConsGate = closedC // the consumer starts reading when the closer has returned
			tk.mu.Unlock()
			e.Probe("flood-to-a-stalled-subscriber")
			w.Start(op, nil)
		} else if op.Phase == 0 {
			w.Start(op, nil)
		} else {
			w.Register(op)
			e.S.Go("late-"+itoa(op.Tok), func() {
				<-closedC
				simrt.Yield("late")
				w.Start(op, nil)
			})
		}
	}
	if !e.S.Settle(30 * time.Second) {
		return
	}
	fire() // the workload ended before step k: close now, at quiescence
	if p.Param("closer_before_heal", 0) > 0 {
		if !e.S.Settle(2 * time.Minute) {
			return
		}
		e.Probe("close-while-the-peer-is-stalled-for-good")
		if _, done := w.Clients[0].closeState(); !done {
			e.Violate("C18.closer-returns", "the WebSocket client's closer was invoked at step %d while the peer is stalled (nothing has healed yet) and has not returned 2 fake minutes later", w.Clients[0].CloseAt)
			return
		}
	}
	e.N.Heal()
	if !e.S.Settle(H) {
		return
	}

	// ---- oracles -----------------------------------------------------------------
	a := w.Clients[0]
	_, done := a.closeState()
	if !done {
		e.Violate("C18.closer-returns", "the WebSocket client's closer was invoked at step %d and has not returned (quiescent, %v later)", a.CloseAt, H)
	}
	for _, c := range w.Clients[1:] {
		_, d := c.closeState()
		if !d {
			e.Violate("C18.closer-returns", "the %s client's closer has not returned", c.Kind)
		}
	}
	w.CheckAllReturned("C18.calls-return")
	w.CheckOwnResults("C18.no-foreign-result", true)
	for _, op := range p.Ops {
		t := e.Tok(op.Tok)
		if op.Phase == 2 && t.Returned && op.Client == 0 && done {
			if t.RetErr == nil {
				e.Violate("C18.late-call-errors", "tok=%d (%s) issued after the closer returned did not fail (val=%q)", t.ID, op.Kind, trunc(t.Val))
			}
		}
		if op.Client != 0 && t.Returned && t.RetErr != nil && op.Phase == 0 && !isConnErr(t.RetErr) && !t.Err {
			e.Violate("C18.http-calls-undisturbed", "tok=%d on the %s client failed although only the closer was invoked: %v", t.ID, p.Clients[op.Client].Kind, t.RetErr)
		}
		if op.Kind == "sub" && (!op.Stall || p.Family == "flood" && done) {
			st := e.Sub(op.Tok)
			if st.Handed && !st.Closed {
				e.Violate("C18.channels-closed", "subscription tok=%d: the channel handed to the caller was never closed (received %d values)", op.Tok, len(st.Received))
			}
		}
	}
	if done {
		// CallStep: the moment the library called Dial. A dial already under way when
		// the closer returns is not a new attempt; neither is the one attempt whose
		// "is the client closed?" check (a few statements before the dial) passed just
		// before the close - that window is inherent in check-then-dial and is only
		// reachable with statement-level scheduling. What must not happen is that the
		// client keeps redialing: a second late dial is a violation.
		late := 0
		for _, d := range e.N.Dials() {
			if d.CallStep > a.CloseDoneAt && d.Addr == addr && d.G != "" && isClientDial(d.G) {
				late++
				// The excused window is a few statements wide and takes no simulated time
				// (the library sleeps before the check, not between check and dial). A
				// dial called at a later simulated instant than the closer's return was
				// decided on after the close: the closed client reconnected.
				if d.CallAt > a.CloseDoneT {
					e.Violate("C18.no-dial-after-close", "the closed client reconnects: a dial was started at %v, %v of simulated time after the closer returned (step %d, dial at step %d)", d.CallAt, d.CallAt-a.CloseDoneT, a.CloseDoneAt, d.CallStep)
					break
				}
				if late > 1 {
					e.Violate("C18.no-dial-after-close", "the closed client keeps reconnecting: dial number %d after the closer returned (step %d) was started at step %d (%v)", late, a.CloseDoneAt, d.CallStep, d.At)
					break
				}
				e.Probe("one-dial-raced-the-close")
			}
		}
		// (Observation, not an oracle - no listed property speaks about sockets: a
		// connection superseded by a reconnect after a read time-out is never closed
		// by the client, and a dial that races the close leaves its connection open.
		// See DESIGN.md section 10.)
	}
	for _, s := range w.Servers {
		s.Stop()
	}
	e.S.Settle(time.Second)
}

func isClientDial(g string) bool {
	// redials are issued by the reconnect goroutine spawned from the client's main loop
	return len(g) > 5 && g[:5] == "main>"
}
