// Package simnet is the in-memory, fault-injecting, deterministic byte-stream
// transport. A connection is two unidirectional streams; every delivery of
// bytes from a sender's stream to the receiver's buffer is a scheduler action.
package simnet

import (
	"context"
	"errors"
	"fmt"
	"io"
	"net"
	"os"
	"runtime"
	"sort"
	"strings"
	"sync"
	"syscall"
	"time"

	"verifsim/simrt"
)

type Cfg struct {
	LatMin, LatMax time.Duration // per-write latency
	ChunkMax       int           // 0 = deliver everything available at once; else random 1..ChunkMax
	ParkWrites     bool          // WS writes are scheduling points
	Rate           int64         // bytes per second per direction (0 = unlimited): slow links
	HTTPWindow     int           // receive window of plain HTTP connections in bytes (0 = unlimited)
}

type DialEvent struct {
	CallStep uint64 // step at which the dialing goroutine called Dial
	CallAt   time.Duration // simulated time of that call
	Step     uint64
	At       time.Duration
	Addr     string
	Outcome  string // ok, refused, hang, nolistener
	Pipe     int
	G        string
}

type FaultStats map[string]int

type Net struct {
	S   *simrt.Sched
	Cfg Cfg
	rng *simrt.RNG

	mu        sync.Mutex
	pipes     []*Pipe
	listeners map[string]*Listener
	dial      map[string]*dialState
	nextCuts  map[string][]pendingCut // cuts for the (skip+1)-th next pipe dialed to addr
	DialLog   []DialEvent
	FaultHook func(kind string, pipe int) // called (under the net lock) whenever a fault fires
	// DeliverHook, when set, is called (under the net lock) after bytes were handed
	// to a reader: pipe, direction and the stream offset delivered so far.
	DeliverHook func(pipe int, ws bool, dir string, off int64)
	Fired       FaultStats
	Probes      map[string]int
}

type dialState struct {
	down    bool
	refuseN int
	hangN   int
}

func New(s *simrt.Sched, cfg Cfg) *Net {
	n := &Net{S: s, Cfg: cfg, rng: simrt.NewRNG(s.Seed).Sub("net"),
		listeners: map[string]*Listener{}, dial: map[string]*dialState{}, nextCuts: map[string][]pendingCut{},
		Fired: FaultStats{}, Probes: map[string]int{}}
	s.AddSource(n)
	return n
}

// ---- errors -------------------------------------------------------------------

type timeoutError struct{}

func (timeoutError) Error() string   { return "i/o timeout" }
func (timeoutError) Timeout() bool   { return true }
func (timeoutError) Temporary() bool { return true }
func (timeoutError) Is(err error) bool {
	return err == os.ErrDeadlineExceeded
}

var errReset = &net.OpError{Op: "read", Net: "sim", Err: syscall.ECONNRESET}
var errPipe = &net.OpError{Op: "write", Net: "sim", Err: syscall.EPIPE}
var errRefused = &net.OpError{Op: "dial", Net: "sim", Err: syscall.ECONNREFUSED}

// ---- deadline (after net.Pipe) -------------------------------------------------

type deadline struct {
	mu     sync.Mutex
	timer  *time.Timer
	cancel chan struct{}
}

func newDeadline() *deadline { return &deadline{cancel: make(chan struct{})} }

func isClosed(c chan struct{}) bool {
	select {
	case <-c:
		return true
	default:
		return false
	}
}

func (d *deadline) set(t time.Time) {
	d.mu.Lock()
	defer d.mu.Unlock()
	if d.timer != nil && !d.timer.Stop() {
		<-d.cancel
	}
	d.timer = nil
	closed := isClosed(d.cancel)
	if t.IsZero() {
		if closed {
			d.cancel = make(chan struct{})
		}
		return
	}
	if dur := time.Until(t); dur > 0 {
		if closed {
			d.cancel = make(chan struct{})
		}
		c := d.cancel
		d.timer = time.AfterFunc(dur, func() { close(c) })
		return
	}
	if !closed {
		close(d.cancel)
	}
}

func (d *deadline) wait() chan struct{} {
	d.mu.Lock()
	defer d.mu.Unlock()
	return d.cancel
}

// ---- streams ------------------------------------------------------------------

type seg struct {
	data []byte
	due  time.Time
	ctrl bool // consists solely of complete control frames (ping/pong/close)
}

type Cut struct {
	Dir   string // "c2s" | "s2c"
	Frame int    // frame index in Dir; -1: absolute offset Off (e.g. inside the HTTP handshake)
	Pos   string // before | header | mid | last | after
	Off   int64
	Kind  string        // fin | rst | blackhole | blackhole-both | stall
	Dur   time.Duration // stall
}

type stream struct {
	pipe *Pipe
	dir  string

	wOff int64
	segs []seg
	dOff int64

	rbuf    []byte
	rerr    error
	rnotify chan struct{}
	wnotify chan struct{} // writer waiting for window space

	nextAt     time.Time // bandwidth limit: no delivery before this time
	pendingEOF bool      // sender closed: EOF after segs drain
	eofSeen    bool
	blackhole  bool
	stallUntil time.Time
	stalled    bool
	wstall     chan struct{}
	werr       error
	discard    bool // writes succeed into the void
	eager      bool // delivery no longer waits for the scheduler (see Endpoint.Read)

	rng     *simrt.RNG // per-stream: draws depend on this stream's own history only
	cutAt   int64
	cutKind string
	cutDur  time.Duration
	cuts    []Cut
	Tap     *Tap
}

// Pipe is one simulated TCP connection.
type Pipe struct {
	ID    int
	WS    bool
	Addr  string
	net   *Net
	c2s   *stream
	s2c   *stream
	C, S  *Endpoint
	Dead  string    // non-empty once a fault killed it
	rtoAt time.Time // one-way black hole: the sender's TCP gives up (reset) at this time
	OpenedAt,
	EndedAt time.Duration
}

func (p *Pipe) Stream(dir string) *stream {
	if dir == "c2s" {
		return p.c2s
	}
	return p.s2c
}

func (p *Pipe) TapOf(dir string) *Tap { return p.Stream(dir).Tap }

// ClosedByClient: the dialing side closed its endpoint (net lock held).
func (p *Pipe) ClosedByClient() bool { return p.C.closed }

// Alive: no fault killed the connection and neither endpoint closed it
// (call with the net lock held, e.g. between Net.Lock / Net.Unlock).
func (p *Pipe) Alive() bool { return p.Dead == "" && !p.C.closed && !p.S.closed }

type Endpoint struct {
	pipe   *Pipe
	side   string // "C" | "S"
	in     *stream
	out    *stream
	name   string
	closed bool
	closeC chan struct{}
	rdl    *deadline
	wdl    *deadline
}

type simAddr string

func (a simAddr) Network() string { return "sim" }
func (a simAddr) String() string  { return string(a) }

func (n *Net) newPipe(addr string, ws bool) *Pipe {
	p := &Pipe{ID: len(n.pipes), WS: ws, Addr: addr, net: n, OpenedAt: n.S.Now()}
	mk := func(dir string) *stream {
		st := &stream{pipe: p, dir: dir, rnotify: make(chan struct{}, 1), cutAt: -1}
		st.rng = simrt.NewRNG(n.S.Seed).Sub(fmt.Sprintf("net:c%d:%s", p.ID, dir))
		st.Tap = &Tap{WS: ws, step: n.S.Step}
		st.Tap.onFrameHdr = func(f Frame) { st.frameHdr(f) }
		return st
	}
	p.c2s, p.s2c = mk("c2s"), mk("s2c")
	p.C = &Endpoint{pipe: p, side: "C", in: p.s2c, out: p.c2s, name: fmt.Sprintf("c%d:C", p.ID), closeC: make(chan struct{}), rdl: newDeadline(), wdl: newDeadline()}
	p.S = &Endpoint{pipe: p, side: "S", in: p.c2s, out: p.s2c, name: fmt.Sprintf("c%d:S", p.ID), closeC: make(chan struct{}), rdl: newDeadline(), wdl: newDeadline()}
	if ws {
		var rest []pendingCut
		for _, pc := range n.nextCuts[addr] {
			if pc.skip == 0 {
				p.Stream(pc.cut.Dir).addCut(pc.cut)
			} else {
				pc.skip--
				rest = append(rest, pc)
			}
		}
		n.nextCuts[addr] = rest
	}
	n.pipes = append(n.pipes, p)
	return p
}

func (st *stream) addCut(c Cut) {
	if c.Frame < 0 {
		if st.cutAt < 0 || c.Off < st.cutAt {
			st.cutAt, st.cutKind, st.cutDur = c.Off, c.Kind, c.Dur
		}
		return
	}
	// the frame may have been written already
	if c.Frame < len(st.Tap.Frames) {
		st.armCut(c, st.Tap.Frames[c.Frame])
		return
	}
	st.cuts = append(st.cuts, c)
}

func (st *stream) armCut(c Cut, f Frame) {
	var off int64
	switch c.Pos {
	case "before":
		off = f.Start
	case "header":
		off = f.Start + 1
	case "mid":
		off = f.Start + int64(f.Hdr) + f.Len/2
	case "last":
		off = f.End() - 1
	default:
		off = f.End()
	}
	if off < st.dOff {
		off = st.dOff
	}
	if st.cutAt < 0 || off < st.cutAt {
		st.cutAt, st.cutKind, st.cutDur = off, c.Kind, c.Dur
	}
}

// called by the tap (under net.mu, from Write) when frame f's header is parsed
func (st *stream) frameHdr(f Frame) {
	rest := st.cuts[:0]
	for _, c := range st.cuts {
		if c.Frame == f.Idx {
			st.armCut(c, f)
		} else {
			rest = append(rest, c)
		}
	}
	st.cuts = rest
}

// ---- Endpoint: net.Conn ---------------------------------------------------------

func (e *Endpoint) LocalAddr() net.Addr { return simAddr(fmt.Sprintf("sim-%s-%d", e.side, e.pipe.ID)) }
func (e *Endpoint) RemoteAddr() net.Addr {
	return simAddr(fmt.Sprintf("sim-peer-of-%s-%d", e.side, e.pipe.ID))
}
func (e *Endpoint) Pipe() *Pipe { return e.pipe }

func (e *Endpoint) SetDeadline(t time.Time) error {
	e.rdl.set(t)
	e.wdl.set(t)
	return nil
}
func (e *Endpoint) SetReadDeadline(t time.Time) error  { e.rdl.set(t); return nil }
func (e *Endpoint) SetWriteDeadline(t time.Time) error { e.wdl.set(t); return nil }

func (e *Endpoint) adopt() {
	if e.side == "C" {
		simrt.AdoptChild("C" + fmt.Sprint(e.pipe.ID))
	} else {
		simrt.Adopt("S" + fmt.Sprint(e.pipe.ID))
	}
}

func (e *Endpoint) Read(b []byte) (int, error) {
	e.adopt()
	n := e.pipe.net
	for {
		n.mu.Lock()
		if e.closed {
			n.mu.Unlock()
			return 0, net.ErrClosed
		}
		st := e.in
		if len(st.rbuf) > 0 {
			k := copy(b, st.rbuf)
			st.rbuf = st.rbuf[k:]
			if st.wnotify != nil {
				select {
				case st.wnotify <- struct{}{}:
				default:
				}
			}
			n.mu.Unlock()
			return k, nil
		}
		if st.rerr != nil {
			err := st.rerr
			if err == io.EOF {
				st.eofSeen = true
			}
			n.mu.Unlock()
			return 0, err
		}
		if !e.pipe.WS && !st.eager && inBodyClose() {
			// net/http drains an unread request body inside body.Close, holding the
			// body's sync.Mutex. A second Close of the same body (the handler's own
			// and the server's after the handler) then waits on that mutex - which,
			// unlike every wait of the simulator, is not a durable block: the
			// scheduler would never see the world quiescent and could never deliver
			// the bytes the drain waits for. So for the rest of this stream delivery
			// no longer waits for a scheduling decision: what is written arrives at
			// once. (The bytes are discarded by the drain; nothing observes them.)
			st.eager = true
			n.Probes["body-drain-eager-delivery"]++
			if len(st.segs) > 0 || st.pendingEOF {
				n.flushLocked(st)
				n.mu.Unlock()
				continue
			}
		}
		n.mu.Unlock()
		dl := e.rdl.wait()
		if isClosed(dl) {
			return 0, timeoutError{}
		}
		if len(b) == 0 {
			return 0, nil
		}
		select {
		case <-st.rnotify:
		case <-dl:
			return 0, timeoutError{}
		case <-e.closeC:
			return 0, net.ErrClosed
		}
	}
}

func (e *Endpoint) Write(b []byte) (int, error) {
	e.adopt()
	n := e.pipe.net
	if e.pipe.WS && n.Cfg.ParkWrites {
		simrt.Park("netwrite", e.name)
	}
	// A write into a full send buffer is partial: the first part is accepted, the
	// rest waits. If the wait ends in a write timeout, what went out stays out.
	n.mu.Lock()
	stalledNow := e.out.wstall != nil && !n.S.Free() && e.out.werr == nil && !e.closed
	n.mu.Unlock()
	if stalledNow && len(b) > 1 {
		half := len(b) / 2
		k, err := e.write(b[:half], true)
		if err != nil {
			return k, err
		}
		k2, err := e.write(b[half:], false)
		return k + k2, err
	}
	return e.write(b, false)
}

// write appends b to the outgoing stream; ignoreStall lets the accepted first
// part of a partial write through.
func (e *Endpoint) write(b []byte, ignoreStall bool) (int, error) {
	n := e.pipe.net
	for {
		n.mu.Lock()
		if e.closed {
			n.mu.Unlock()
			return 0, net.ErrClosed
		}
		st := e.out
		if st.werr != nil {
			n.mu.Unlock()
			return 0, st.werr
		}
		if st.wstall != nil && !n.S.Free() && !ignoreStall {
			c := st.wstall
			n.Probes["write-blocked-in-stall"]++
			n.mu.Unlock()
			dl := e.wdl.wait()
			select {
			case <-c:
			case <-dl:
				return 0, timeoutError{}
			case <-e.closeC:
				return 0, net.ErrClosed
			}
			continue
		}
		if win := n.Cfg.HTTPWindow; win > 0 && !e.pipe.WS && !n.S.Free() && !st.discard && !st.blackhole && st.rerr == nil {
			// TCP flow control: the sender blocks while the receiver's window is full
			pend := len(st.rbuf)
			for _, sg := range st.segs {
				pend += len(sg.data)
			}
			if pend >= win {
				if st.wnotify == nil {
					st.wnotify = make(chan struct{}, 1)
				}
				c := st.wnotify
				n.Probes["write-blocked-by-flow-control"]++
				n.mu.Unlock()
				dl := e.wdl.wait()
				select {
				case <-c:
				case <-dl:
					return 0, timeoutError{}
				case <-e.closeC:
					return 0, net.ErrClosed
				}
				continue
			}
		}
		st.wOff += int64(len(b))
		nf0, clean0 := len(st.Tap.Frames), !st.Tap.Pending()
		st.Tap.Feed(b)
		ctrl := st.Tap.WS && clean0 && !st.Tap.Pending() && len(st.Tap.Frames) > nf0
		if ctrl {
			for _, f := range st.Tap.Frames[nf0:] {
				if f.Op < 9 { // data or close: not keepalive-only
					ctrl = false
				}
			}
		}
		if st.discard || st.blackhole {
			n.mu.Unlock()
			return len(b), nil
		}
		lat := n.Cfg.LatMin
		if n.Cfg.LatMax > n.Cfg.LatMin {
			lat += time.Duration(st.rng.Uint64() % uint64(n.Cfg.LatMax-n.Cfg.LatMin+1))
		}
		due := time.Now().Add(lat)
		if k := len(st.segs); k > 0 && st.segs[k-1].due.After(due) {
			due = st.segs[k-1].due // FIFO
		}
		st.segs = append(st.segs, seg{data: append([]byte(nil), b...), due: due, ctrl: ctrl})
		if n.S.Free() || st.eager {
			n.flushLocked(st)
		}
		n.mu.Unlock()
		return len(b), nil
	}
}

// inBodyClose reports whether the caller is (transitively) net/http's
// (*body).Close, i.e. a read issued while the request body's mutex is held.
func inBodyClose() bool {
	var pcs [32]uintptr
	k := runtime.Callers(3, pcs[:])
	frames := runtime.CallersFrames(pcs[:k])
	for {
		f, more := frames.Next()
		if strings.HasSuffix(f.Function, "net/http.(*body).Close") {
			return true
		}
		if !more {
			return false
		}
	}
}

// Close is a local close: our reads fail, the peer sees EOF after the bytes
// already written (graceful), the peer's later writes are discarded and fail
// once it has seen the EOF.
func (e *Endpoint) Close() error {
	n := e.pipe.net
	n.mu.Lock()
	if e.closed {
		n.mu.Unlock()
		return net.ErrClosed // like a TCP connection: "use of closed network connection"
	}
	e.closed = true
	close(e.closeC)
	e.out.pendingEOF = true
	e.in.discard = true
	e.in.segs = nil
	e.in.rbuf = nil
	if e.in.wstall != nil {
		// the peer is blocked in a write because we had stopped reading: closing a
		// socket with unread data makes TCP answer with a reset, which fails that write
		if e.in.werr == nil {
			e.in.werr = errReset
		}
		close(e.in.wstall)
		e.in.wstall = nil
		n.Probes["blocked-writer-reset-by-close"]++
	}
	if e.in.wnotify != nil {
		select {
		case e.in.wnotify <- struct{}{}:
		default:
		}
	}
	if e.pipe.EndedAt == 0 {
		e.pipe.EndedAt = n.S.Now()
	}
	if n.S.Free() || e.out.eager {
		n.flushLocked(e.out)
	}
	n.mu.Unlock()
	return nil
}

func (st *stream) notify() {
	select {
	case st.rnotify <- struct{}{}:
	default:
	}
	if st.wnotify != nil {
		select {
		case st.wnotify <- struct{}{}:
		default:
		}
	}
}

// flushLocked delivers everything (teardown / pass-through mode).
func (n *Net) flushLocked(st *stream) {
	if st.blackhole {
		return
	}
	for _, sg := range st.segs {
		st.rbuf = append(st.rbuf, sg.data...)
		st.dOff += int64(len(sg.data))
	}
	st.segs = nil
	if st.pendingEOF && st.rerr == nil {
		st.rerr = io.EOF
	}
	st.notify()
}

// ---- scheduler source -------------------------------------------------------------

func (st *stream) key() string { return fmt.Sprintf("net:c%03d:%s", st.pipe.ID, st.dir) }

func (st *stream) deliverable(now time.Time) bool {
	if st.blackhole || st.stalled || st.rerr != nil {
		return false
	}
	if st.cutAt >= 0 && st.dOff >= st.cutAt {
		return false
	}
	if st.nextAt.After(now) {
		return false
	}
	if len(st.segs) > 0 {
		return !st.segs[0].due.After(now)
	}
	return st.pendingEOF
}

func (n *Net) Actions(now time.Time) []simrt.Action {
	n.mu.Lock()
	defer n.mu.Unlock()
	var acts []simrt.Action
	for _, p := range n.pipes {
		if !p.rtoAt.IsZero() && !p.rtoAt.After(now) {
			p := p
			acts = append(acts, simrt.Action{Key: fmt.Sprintf("fault:rto:c%03d", p.ID), Internal: true, Do: func() {
				n.mu.Lock()
				p.rtoAt = time.Time{}
				n.mu.Unlock()
				n.Inject(p.ID, "rst", "both", 0)
			}})
		}
		for _, st := range []*stream{p.c2s, p.s2c} {
			st := st
			if st.stalled && !st.stallUntil.IsZero() && !st.stallUntil.After(now) {
				st.stalled = false
			}
			if st.cutAt >= 0 && st.dOff >= st.cutAt && st.rerr == nil && !st.blackhole && !st.stalled {
				acts = append(acts, simrt.Action{Key: "fault:" + st.key(), Internal: true, Do: func() { n.fireCut(st) }})
				continue
			}
			if st.deliverable(now) {
				acts = append(acts, simrt.Action{Key: st.key(), Internal: true, Do: func() { n.deliver(st) }})
			}
		}
	}
	return acts
}

func (n *Net) NextDue(now time.Time) (time.Duration, bool) {
	n.mu.Lock()
	defer n.mu.Unlock()
	var best time.Duration
	ok := false
	upd := func(t time.Time) {
		d := t.Sub(now)
		if d <= 0 {
			d = time.Nanosecond
		}
		if !ok || d < best {
			best, ok = d, true
		}
	}
	for _, p := range n.pipes {
		if !p.rtoAt.IsZero() {
			upd(p.rtoAt)
		}
		for _, st := range []*stream{p.c2s, p.s2c} {
			if st.blackhole || st.rerr != nil {
				continue
			}
			if st.stalled {
				if !st.stallUntil.IsZero() {
					upd(st.stallUntil)
				}
				continue
			}
			if len(st.segs) > 0 && st.segs[0].due.After(now) {
				upd(st.segs[0].due)
			} else if (len(st.segs) > 0 || st.pendingEOF) && st.nextAt.After(now) {
				upd(st.nextAt)
			}
		}
	}
	return best, ok
}

func (n *Net) Idle() bool {
	n.mu.Lock()
	defer n.mu.Unlock()
	for _, p := range n.pipes {
		for _, st := range []*stream{p.c2s, p.s2c} {
			if st.blackhole || st.rerr != nil {
				continue
			}
			if st.stalled && st.stallUntil.IsZero() {
				continue // stalled until heal: nothing will happen by itself
			}
			if st.pendingEOF && st.rerr == nil {
				return false
			}
			for _, sg := range st.segs {
				if !sg.ctrl {
					return false
				}
			}
		}
	}
	return true
}

func (n *Net) deliver(st *stream) {
	n.mu.Lock()
	defer n.mu.Unlock()
	if len(st.segs) == 0 {
		if st.pendingEOF && st.rerr == nil {
			st.rerr = io.EOF
			st.notify()
		}
		return
	}
	sg := &st.segs[0]
	k := len(sg.data)
	if n.Cfg.ChunkMax > 0 {
		if m := 1 + st.rng.Intn(n.Cfg.ChunkMax); m < k {
			// small chunks near segment starts (headers), at most ~8 pieces for the bulk
			if k > 32 && m < k/8 {
				m = k/8 + st.rng.Intn(k/8+1)
			}
			k = m
		}
	}
	if st.cutAt >= 0 && st.dOff+int64(k) > st.cutAt {
		k = int(st.cutAt - st.dOff)
	}
	if n.Cfg.Rate > 0 && k > 0 {
		if max := int(n.Cfg.Rate/4) + 1; k > max && n.Cfg.ChunkMax == 0 {
			k = max // at most a quarter second worth of bytes per delivery
		}
		st.nextAt = time.Now().Add(time.Duration(int64(k) * int64(time.Second) / n.Cfg.Rate))
	}
	st.rbuf = append(st.rbuf, sg.data[:k]...)
	st.dOff += int64(k)
	if k == len(sg.data) {
		st.segs = st.segs[1:]
	} else {
		sg.data = sg.data[k:]
	}
	st.notify()
	if n.DeliverHook != nil && k > 0 {
		n.DeliverHook(st.pipe.ID, st.pipe.WS, st.dir, st.dOff)
	}
}

// ---- faults -----------------------------------------------------------------------

func (n *Net) fireCut(st *stream) {
	n.mu.Lock()
	kind, dur := st.cutKind, st.cutDur
	st.cutAt = -1
	// classify where the cut landed, for the evidence
	pos := "boundary"
	if st.Tap.WS {
		if st.dOff < st.Tap.HdrEnd || !st.Tap.inFrames {
			pos = "in-handshake"
		} else {
			for i := len(st.Tap.Frames) - 1; i >= 0; i-- {
				f := st.Tap.Frames[i]
				if st.dOff > f.Start && st.dOff < f.End() {
					if st.dOff < f.Start+int64(f.Hdr) {
						pos = "in-header"
					} else {
						pos = "in-payload"
					}
					break
				}
				if f.End() <= st.dOff {
					break
				}
			}
		}
	}
	n.Probes["cut-"+pos]++
	n.mu.Unlock()
	n.Inject(st.pipe.ID, kind, st.dir, dur)
}

// Inject applies a fault to a pipe right now.
func (n *Net) Inject(pipe int, kind, dir string, dur time.Duration) {
	n.mu.Lock()
	defer n.mu.Unlock()
	if pipe < 0 || pipe >= len(n.pipes) {
		return
	}
	p := n.pipes[pipe]
	n.Fired[kind]++
	simrt.Rec("fault", kind, fmt.Sprintf("c%d:%s", pipe, dir), 0)
	if n.FaultHook != nil {
		n.FaultHook(kind, pipe)
	}
	both := []*stream{p.c2s, p.s2c}
	sel := both
	if dir == "c2s" {
		sel = both[:1]
	} else if dir == "s2c" {
		sel = both[1:]
	}
	if kind == "goaway" {
		// an intermediary (gateway, load balancer, another implementation) shuts the
		// connection down in an orderly way: a close frame with status 1001 "going
		// away" to the client, then FIN. Only possible at a message boundary with
		// nothing in flight; anywhere else it degenerates to a plain FIN.
		if st := p.s2c; p.WS && st.Tap.WS && !st.Tap.Pending() && len(st.segs) == 0 && st.rerr == nil && !st.blackhole {
			frame := []byte{0x88, 0x02, 0x03, 0xE9}
			st.Tap.Feed(frame)
			st.wOff += int64(len(frame))
			st.dOff += int64(len(frame))
			st.rbuf = append(st.rbuf, frame...)
			n.Probes["close-frame-1001-from-the-peer"]++
		}
		kind = "fin"
	}
	switch kind {
	case "fin":
		// the connection ends gracefully at this point of dir; the opposite
		// direction ends too (after what was already delivered)
		for _, st := range both {
			if st.rerr == nil {
				st.rerr = io.EOF
			}
			st.segs = nil
			st.werr = errPipe
			st.notify()
			st.releaseStall()
		}
		p.markDead("fin", n)
	case "rst":
		for _, st := range both {
			st.rbuf = nil
			st.segs = nil
			st.rerr = errReset
			st.werr = errPipe
			st.notify()
			st.releaseStall()
		}
		p.rtoAt = time.Time{}
		p.markDead("rst", n)
	case "blackhole", "blackhole-both":
		if kind == "blackhole-both" {
			sel = both
		}
		for _, st := range sel {
			st.blackhole = true
			st.segs = nil
		}
		if len(sel) == 1 && p.rtoAt.IsZero() {
			// one direction only: the sending side's TCP retransmits into the void
			// and eventually resets the connection (modelled at 5 minutes)
			p.rtoAt = time.Now().Add(5 * time.Minute)
		}
		p.markDead("blackhole", n)
	case "stall":
		for _, st := range sel {
			st.stalled = true
			if dur > 0 {
				st.stallUntil = time.Now().Add(dur)
			} else {
				st.stallUntil = time.Time{}
			}
		}
	case "wstall":
		for _, st := range sel {
			if st.wstall == nil {
				st.wstall = make(chan struct{})
			}
		}
	}
}

func (st *stream) releaseStall() {
	st.stalled = false
	if st.wstall != nil {
		close(st.wstall)
		st.wstall = nil
	}
}

func (p *Pipe) markDead(why string, n *Net) {
	if p.Dead == "" {
		p.Dead = why
		p.EndedAt = n.S.Now()
	}
}

// Heal removes everything that can heal: stalls, listener outages, dial faults.
// Cut, reset or black-holed connections stay dead (TCP does not resurrect them).
func (n *Net) Heal() {
	n.mu.Lock()
	defer n.mu.Unlock()
	for _, p := range n.pipes {
		for _, st := range []*stream{p.c2s, p.s2c} {
			st.releaseStall()
			st.cuts = nil
			if st.cutAt >= 0 {
				st.cutAt = -1
			}
		}
	}
	for _, d := range n.dial {
		*d = dialState{}
	}
	n.nextCuts = map[string][]pendingCut{}
	simrt.Rec("heal", "", "", 0)
}

// PlanCut registers a frame-relative fault on an existing pipe.
func (n *Net) PlanCut(pipe int, c Cut) {
	n.mu.Lock()
	defer n.mu.Unlock()
	if pipe < 0 || pipe >= len(n.pipes) {
		return
	}
	n.pipes[pipe].Stream(c.Dir).addCut(c)
}

// PlanCutNext registers a fault for the next connection dialed to addr.
func (n *Net) PlanCutNext(addr string, c Cut) { n.PlanCutNextK(addr, 0, c) }

// PlanCutNextK registers a fault for the (skip+1)-th next WebSocket connection dialed to addr.
func (n *Net) PlanCutNextK(addr string, skip int, c Cut) {
	n.mu.Lock()
	defer n.mu.Unlock()
	n.nextCuts[addr] = append(n.nextCuts[addr], pendingCut{skip: skip, cut: c})
}

type pendingCut struct {
	skip int
	cut  Cut
}

func (n *Net) ds(addr string) *dialState {
	d := n.dial[addr]
	if d == nil {
		d = &dialState{}
		n.dial[addr] = d
	}
	return d
}

func (n *Net) SetDown(addr string, down bool) {
	n.mu.Lock()
	n.ds(addr).down = down
	n.mu.Unlock()
}
func (n *Net) RefuseNext(addr string, k int) { n.mu.Lock(); n.ds(addr).refuseN += k; n.mu.Unlock() }
func (n *Net) HangNext(addr string, k int)   { n.mu.Lock(); n.ds(addr).hangN += k; n.mu.Unlock() }

func (n *Net) Pipes() []*Pipe {
	n.mu.Lock()
	defer n.mu.Unlock()
	return append([]*Pipe(nil), n.pipes...)
}

func (n *Net) NumPipes() int { n.mu.Lock(); defer n.mu.Unlock(); return len(n.pipes) }

// Lock/Unlock give oracles a consistent view of taps.
func (n *Net) Lock()   { n.mu.Lock() }
func (n *Net) Unlock() { n.mu.Unlock() }

func (n *Net) Dials() []DialEvent {
	n.mu.Lock()
	defer n.mu.Unlock()
	return append([]DialEvent(nil), n.DialLog...)
}

// ---- listener / dial ------------------------------------------------------------------

type Listener struct {
	net    *Net
	addr   string
	q      []*Pipe
	notify chan struct{}
	closed bool
	closeC chan struct{}
}

func (n *Net) Listen(addr string) *Listener {
	n.mu.Lock()
	defer n.mu.Unlock()
	l := &Listener{net: n, addr: addr, notify: make(chan struct{}, 1), closeC: make(chan struct{})}
	n.listeners[addr] = l
	return l
}

func (l *Listener) Accept() (net.Conn, error) {
	simrt.Adopt("accept:" + l.addr)
	for {
		l.net.mu.Lock()
		if l.closed {
			l.net.mu.Unlock()
			return nil, net.ErrClosed
		}
		if len(l.q) > 0 {
			p := l.q[0]
			l.q = l.q[1:]
			l.net.mu.Unlock()
			return p.S, nil
		}
		l.net.mu.Unlock()
		select {
		case <-l.notify:
		case <-l.closeC:
			return nil, net.ErrClosed
		}
	}
}

func (l *Listener) Close() error {
	l.net.mu.Lock()
	defer l.net.mu.Unlock()
	if !l.closed {
		l.closed = true
		close(l.closeC)
		if l.net.listeners[l.addr] == l {
			delete(l.net.listeners, l.addr)
		}
	}
	return nil
}

func (l *Listener) Addr() net.Addr { return simAddr(l.addr) }

// Dialer returns a DialContext function; ws selects frame-aware taps and write
// parks for the connections it creates.
func (n *Net) Dialer(ws bool) func(ctx context.Context, network, addr string) (net.Conn, error) {
	return func(ctx context.Context, network, addr string) (net.Conn, error) {
		simrt.AdoptChild("dial:" + addr)
		callStep := n.S.Step() // when the caller decided to dial (the park below models scheduling delay)
		callAt := n.S.Now()
		simrt.Park("dial", addr)
		n.mu.Lock()
		ev := DialEvent{Step: n.S.Step(), CallStep: callStep, CallAt: callAt, At: n.S.Now(), Addr: addr, G: simrt.Self(), Pipe: -1}
		d := n.ds(addr)
		l := n.listeners[addr]
		switch {
		case n.S.Free() && l != nil:
		case ws && d.hangN > 0: // scripted redial outcomes concern the WebSocket client only
			d.hangN--
			ev.Outcome = "hang"
			n.DialLog = append(n.DialLog, ev)
			n.Fired["dial-hang"]++
			n.mu.Unlock()
			<-ctx.Done()
			return nil, &net.OpError{Op: "dial", Net: "sim", Err: ctx.Err()}
		case d.down || (ws && d.refuseN > 0) || l == nil || l.closed:
			if ws && d.refuseN > 0 {
				d.refuseN--
			}
			ev.Outcome = "refused"
			n.DialLog = append(n.DialLog, ev)
			n.Fired["dial-refused"]++
			n.mu.Unlock()
			return nil, errRefused
		}
		if l == nil {
			n.mu.Unlock()
			return nil, errRefused
		}
		p := n.newPipe(addr, ws)
		ev.Outcome, ev.Pipe = "ok", p.ID
		n.DialLog = append(n.DialLog, ev)
		l.q = append(l.q, p)
		select {
		case l.notify <- struct{}{}:
		default:
		}
		n.mu.Unlock()
		return p.C, nil
	}
}

// ---- inspection helpers ---------------------------------------------------------------

// SortedFired returns "kind=count" strings for the evidence.
func (n *Net) SortedFired() []string {
	n.mu.Lock()
	defer n.mu.Unlock()
	var out []string
	for k, v := range n.Fired {
		out = append(out, fmt.Sprintf("%s=%d", k, v))
	}
	sort.Strings(out)
	return out
}

var _ = errors.New
