package simnet

import (
	"bytes"
	"fmt"
)

// Tap is a passive RFC 6455 parser fed with every byte *written* in one
// direction of a connection. It skips the HTTP upgrade preamble, then records
// frame boundaries and reassembles messages. A byte stream that is not a
// sequence of well-formed frames sets Err (used by the C14 oracle).
type Frame struct {
	Idx    int
	Start  int64 // absolute stream offset of the first header byte
	Hdr    int
	Len    int64
	Op     byte
	Fin    bool
	Masked bool
}

func (f Frame) End() int64 { return f.Start + int64(f.Hdr) + f.Len }

type Message struct {
	Op         byte
	Data       []byte
	FirstFrame int
	End        int64 // absolute offset just past the last byte
	Step       uint64
}

type Tap struct {
	WS       bool
	inFrames bool
	buf      []byte
	off      int64 // absolute offset of buf[0]
	Frames   []Frame
	Msgs     []Message
	Err      string
	HdrEnd   int64 // offset where frames start

	// frame being consumed
	have    bool
	cur     Frame
	payload []byte
	mask    [4]byte
	// message being assembled
	inMsg    bool
	msgOp    byte
	msgFirst int
	msgData  []byte

	AfterClose int // data frames written after a close frame
	closed     bool
	onFrameHdr func(f Frame)
	step       func() uint64
}

func (t *Tap) fail(format string, a ...interface{}) {
	if t.Err == "" {
		t.Err = fmt.Sprintf(format, a...)
	}
}

func (t *Tap) Feed(p []byte) {
	if !t.WS || t.Err != "" {
		t.off += int64(len(p))
		return
	}
	t.buf = append(t.buf, p...)
	if !t.inFrames {
		i := bytes.Index(t.buf, []byte("\r\n\r\n"))
		if i < 0 {
			return
		}
		t.HdrEnd = t.off + int64(i) + 4
		t.buf = t.buf[i+4:]
		t.off = t.HdrEnd
		t.inFrames = true
	}
	for {
		if !t.have {
			if len(t.buf) < 2 {
				return
			}
			b0, b1 := t.buf[0], t.buf[1]
			hdr := 2
			l := int64(b1 & 0x7f)
			masked := b1&0x80 != 0
			switch l {
			case 126:
				hdr += 2
			case 127:
				hdr += 8
			}
			if masked {
				hdr += 4
			}
			if len(t.buf) < hdr {
				return
			}
			pos := 2
			switch l {
			case 126:
				l = int64(t.buf[2])<<8 | int64(t.buf[3])
				pos = 4
			case 127:
				l = 0
				for i := 0; i < 8; i++ {
					l = l<<8 | int64(t.buf[2+i])
				}
				pos = 10
			}
			if masked {
				copy(t.mask[:], t.buf[pos:pos+4])
			}
			f := Frame{Idx: len(t.Frames), Start: t.off, Hdr: hdr, Len: l, Op: b0 & 0x0f, Fin: b0&0x80 != 0, Masked: masked}
			if b0&0x70 != 0 {
				t.fail("frame %d at %d: reserved bits set (0x%02x)", f.Idx, f.Start, b0)
				return
			}
			switch f.Op {
			case 0, 1, 2, 8, 9, 10:
			default:
				t.fail("frame %d at %d: bad opcode %d", f.Idx, f.Start, f.Op)
				return
			}
			if f.Op >= 8 && (!f.Fin || f.Len > 125) {
				t.fail("frame %d at %d: bad control frame", f.Idx, f.Start)
				return
			}
			if l < 0 || l > 1<<30 {
				t.fail("frame %d at %d: absurd length %d", f.Idx, f.Start, l)
				return
			}
			if f.Op == 0 && !t.inMsg {
				t.fail("frame %d at %d: continuation without a message in progress", f.Idx, f.Start)
				return
			}
			if (f.Op == 1 || f.Op == 2) && t.inMsg {
				t.fail("frame %d at %d: new data frame inside a fragmented message (interleaved writers)", f.Idx, f.Start)
				return
			}
			t.Frames = append(t.Frames, f)
			t.cur = f
			t.have = true
			t.payload = t.payload[:0]
			t.buf = t.buf[hdr:]
			t.off += int64(hdr)
			if t.onFrameHdr != nil {
				t.onFrameHdr(f)
			}
		}
		need := int(t.cur.Len) - len(t.payload)
		if need > len(t.buf) {
			need = len(t.buf)
		}
		t.payload = append(t.payload, t.buf[:need]...)
		t.buf = t.buf[need:]
		t.off += int64(need)
		if int64(len(t.payload)) < t.cur.Len {
			return
		}
		// frame complete
		if t.cur.Masked {
			for i := range t.payload {
				t.payload[i] ^= t.mask[i&3]
			}
		}
		f := t.cur
		t.have = false
		var st uint64
		if t.step != nil {
			st = t.step()
		}
		if f.Op >= 8 {
			t.Msgs = append(t.Msgs, Message{Op: f.Op, Data: append([]byte(nil), t.payload...), FirstFrame: f.Idx, End: t.off, Step: st})
			if f.Op == 8 {
				t.closed = true
			}
			continue
		}
		if t.closed {
			t.AfterClose++
		}
		if f.Op != 0 {
			t.inMsg = true
			t.msgOp = f.Op
			t.msgFirst = f.Idx
			t.msgData = t.msgData[:0]
		}
		t.msgData = append(t.msgData, t.payload...)
		if f.Fin {
			t.inMsg = false
			t.Msgs = append(t.Msgs, Message{Op: t.msgOp, Data: append([]byte(nil), t.msgData...), FirstFrame: t.msgFirst, End: t.off, Step: st})
		}
	}
}

// Pending reports whether the tap ends inside a frame or message (torn tail).
func (t *Tap) Pending() bool { return t.WS && t.inFrames && (t.have || t.inMsg || len(t.buf) > 0) }
