package simrt

import (
	"reflect"
)

// Select instrumentation. A multi-way
//
//	select { case x := <-a: ...; case b <- v: ... }
//
// is rewritten by tools/instrument into
//
//	{ c0 := a; c1 := b; v1 := simrt.V(c1, v)
//	  s := simrt.Choose(site, simrt.R(c0), simrt.S(c1, v1))
//	  select { case x := <-simrt.MR(s, 0, c0): ...; case simrt.MS(s, 1, c1) <- v1: ... } }
//
// Choose parks, then polls the cases in an order derived from the run seed and
// the goroutine's identity. If a case is ready its communication is performed
// here and re-played to the original clause through a private channel; the
// other clauses get nil channels. If none is ready the original channels are
// used and the select blocks as written.

type Case struct {
	send bool
	ch   reflect.Value
	val  reflect.Value
}

type Sel struct {
	winner int // -1: none was ready
	recv   reflect.Value
	ok     bool
}

func R[T any](c <-chan T) Case { return Case{ch: reflect.ValueOf(c)} }

func S[T any](c chan<- T, v T) Case {
	return Case{send: true, ch: reflect.ValueOf(c), val: reflect.ValueOf(&v).Elem()}
}

// V types a send value by its channel's element type.
func V[T any](c chan<- T, v T) T { return v }

func order(n int, stream string) []int {
	h := GRand(stream)
	p := make([]int, n)
	for i := range p {
		p[i] = i
	}
	for i := n - 1; i > 0; i-- {
		h = mix(h)
		j := int(h % uint64(i+1))
		p[i], p[j] = p[j], p[i]
	}
	return p
}

func Choose(site string, cases ...Case) *Sel {
	s := cur.Load()
	if s == nil || s.free.Load() {
		return &Sel{winner: -1}
	}
	s.park("select", site, true)
	if s.free.Load() {
		return &Sel{winner: -1}
	}
	for _, i := range order(len(cases), "sel") {
		c := cases[i]
		if !c.ch.IsValid() || c.ch.IsNil() {
			continue
		}
		if c.send {
			if trySend(c.ch, c.val) {
				return &Sel{winner: i}
			}
			continue
		}
		if v, ok := c.ch.TryRecv(); v.IsValid() {
			return &Sel{winner: i, recv: v, ok: ok}
		}
	}
	return &Sel{winner: -1}
}

func trySend(ch, v reflect.Value) (sent bool) {
	defer func() {
		if r := recover(); r != nil {
			// send on closed channel: let the original select panic as written
			sent = false
		}
	}()
	return ch.TrySend(v)
}

// Woke is the first statement of every communication clause of a rewritten
// select. If the clause was reached by blocking, the goroutine has just been
// woken by the Go runtime and runs concurrently with its waker: it parks, so
// that from here on the scheduler decides again who runs.
func Woke(sel *Sel, site string) {
	if sel.winner >= 0 {
		return
	}
	s := cur.Load()
	if s == nil || s.free.Load() {
		return
	}
	s.park("wake", site, true)
}

// MR maps a receive clause's channel.
func MR[T any](s *Sel, i int, c <-chan T) <-chan T {
	if s.winner < 0 {
		return c
	}
	if s.winner != i {
		return nil
	}
	ch := make(chan T, 1)
	if !s.ok {
		close(ch)
		return ch
	}
	var v T
	reflect.ValueOf(&v).Elem().Set(s.recv)
	ch <- v
	return ch
}

// MS maps a send clause's channel.
func MS[T any](s *Sel, i int, c chan<- T) chan<- T {
	if s.winner < 0 {
		return c
	}
	if s.winner != i {
		return nil
	}
	return make(chan T, 1) // the value has been sent by Choose already
}

// ReflectSelect replaces reflect.Select in instrumented code.
func ReflectSelect(cases []reflect.SelectCase) (int, reflect.Value, bool) {
	s := cur.Load()
	if s == nil || s.free.Load() {
		return reflect.Select(cases)
	}
	s.park("rselect", CallerSite(1), true)
	if s.free.Load() {
		return reflect.Select(cases)
	}
	for _, i := range order(len(cases), "rsel") {
		c := cases[i]
		switch c.Dir {
		case reflect.SelectRecv:
			if !c.Chan.IsValid() || c.Chan.IsNil() {
				continue
			}
			if v, ok := c.Chan.TryRecv(); v.IsValid() {
				return i, v, ok
			}
		case reflect.SelectSend:
			if !c.Chan.IsValid() || c.Chan.IsNil() {
				continue
			}
			if trySend(c.Chan, c.Send) {
				return i, reflect.Value{}, false
			}
		}
	}
	i, v, ok := reflect.Select(cases)
	if !s.free.Load() {
		s.park("wake", CallerSite(1), true) // woken by the runtime: see Woke
	}
	return i, v, ok
}
