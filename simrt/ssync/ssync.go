// Package ssync replaces "sync" in the instrumented copy of the library: the
// whole API is re-exported by alias except Mutex / RWMutex, which are 1-slot
// channels (durably blocking inside a synctest bubble) whose Lock is a
// scheduling point.
package ssync

import (
	"sync"
	"sync/atomic"

	"verifsim/simrt"
)

type (
	Once      = sync.Once
	WaitGroup = sync.WaitGroup
	Cond      = sync.Cond
	Map       = sync.Map
	Pool      = sync.Pool
	Locker    = sync.Locker
)

func NewCond(l Locker) *Cond                                   { return sync.NewCond(l) }
func OnceFunc(f func()) func()                                 { return sync.OnceFunc(f) }
func OnceValue[T any](f func() T) func() T                     { return sync.OnceValue(f) }
func OnceValues[T1, T2 any](f func() (T1, T2)) func() (T1, T2) { return sync.OnceValues(f) }

type Mutex struct {
	ch atomic.Pointer[chan struct{}]
}

func (m *Mutex) c() chan struct{} {
	if p := m.ch.Load(); p != nil {
		return *p
	}
	c := make(chan struct{}, 1)
	if m.ch.CompareAndSwap(nil, &c) {
		return c
	}
	return *m.ch.Load()
}

func (m *Mutex) Lock() {
	simrt.Park("lock", simrt.CallerSite(1))
	m.c() <- struct{}{}
}

func (m *Mutex) TryLock() bool {
	select {
	case m.c() <- struct{}{}:
		return true
	default:
		return false
	}
}

func (m *Mutex) Unlock() {
	select {
	case <-m.c():
	default:
		panic("sync: unlock of unlocked mutex")
	}
}

// RWMutex is modelled as an exclusive lock (sound: fewer behaviours, never more).
type RWMutex struct{ Mutex }

func (m *RWMutex) RLock()          { m.Lock() }
func (m *RWMutex) RUnlock()        { m.Unlock() }
func (m *RWMutex) TryRLock() bool  { return m.TryLock() }
func (m *RWMutex) RLocker() Locker { return &m.Mutex }
