package simrt

import (
	"fmt"
	"iter"
	"sort"
)

// SortedRange replaces `range m` over maps in instrumented code: keys are
// visited in a canonical order, and (like the built-in) a key deleted before it
// is reached is not produced; keys added during iteration are not produced.
func SortedRange[M ~map[K]V, K comparable, V any](m M) iter.Seq2[K, V] {
	return func(yield func(K, V) bool) {
		if cur.Load() == nil {
			for k, v := range m {
				if !yield(k, v) {
					return
				}
			}
			return
		}
		type kk struct {
			k K
			s string
		}
		keys := make([]kk, 0, len(m))
		for k := range m {
			keys = append(keys, kk{k, fmt.Sprintf("%T:%v", k, k)})
		}
		sort.Slice(keys, func(i, j int) bool { return keys[i].s < keys[j].s })
		for _, k := range keys {
			v, ok := m[k.k]
			if !ok {
				continue
			}
			if !yield(k.k, v) {
				return
			}
		}
	}
}
