package simrt

// SplitMix64-based PRNG. Everything random in a run is derived from one seed
// through named sub-streams, so that removing draws from one dimension (e.g.
// the workload) does not shift another (e.g. the schedule).

type RNG struct{ s uint64 }

func mix(z uint64) uint64 {
	z += 0x9e3779b97f4a7c15
	z = (z ^ (z >> 30)) * 0xbf58476d1ce4e5b9
	z = (z ^ (z >> 27)) * 0x94d049bb133111eb
	return z ^ (z >> 31)
}

// HashStr is FNV-1a folded through mix; used to derive sub-streams and
// per-goroutine decisions from stable names.
func HashStr(seed uint64, s string) uint64 {
	h := uint64(0xcbf29ce484222325) ^ seed
	for i := 0; i < len(s); i++ {
		h ^= uint64(s[i])
		h *= 0x100000001b3
	}
	return mix(h)
}

func NewRNG(seed uint64) *RNG { return &RNG{s: mix(seed)} }

// Sub derives an independent stream.
func (r *RNG) Sub(name string) *RNG { return &RNG{s: HashStr(r.s, name)} }

func (r *RNG) Uint64() uint64 {
	r.s += 0x9e3779b97f4a7c15
	z := r.s
	z = (z ^ (z >> 30)) * 0xbf58476d1ce4e5b9
	z = (z ^ (z >> 27)) * 0x94d049bb133111eb
	return z ^ (z >> 31)
}

func (r *RNG) Intn(n int) int {
	if n <= 1 {
		return 0
	}
	return int(r.Uint64() % uint64(n))
}

// Range returns a value in [lo, hi].
func (r *RNG) Range(lo, hi int) int {
	if hi <= lo {
		return lo
	}
	return lo + r.Intn(hi-lo+1)
}

func (r *RNG) Float64() float64 { return float64(r.Uint64()>>11) / (1 << 53) }

func (r *RNG) Bool(p float64) bool { return r.Float64() < p }

func (r *RNG) Perm(n int) []int {
	p := make([]int, n)
	for i := range p {
		p[i] = i
	}
	for i := n - 1; i > 0; i-- {
		j := r.Intn(i + 1)
		p[i], p[j] = p[j], p[i]
	}
	return p
}

func Pick[T any](r *RNG, xs []T) T { return xs[r.Intn(len(xs))] }
