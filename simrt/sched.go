// Package simrt is the deterministic step scheduler that runs go-jsonrpc inside
// one testing/synctest bubble. Every lock acquisition, multi-way select,
// reflect.Select, simulated network write, dial and harness yield is a *park*:
// the goroutine registers itself and blocks on a bubble channel. The scheduler
// (the bubble's root goroutine) waits for quiescence (synctest.Wait), collects
// the enabled actions in canonical order and lets the run's PRNG pick one.
package simrt

import (
	"fmt"
	"runtime"
	"sort"
	"strconv"
	"strings"
	"sync"
	"sync/atomic"
	"testing/synctest"
	"time"
)

// ---- global current scheduler ------------------------------------------------

var cur atomic.Pointer[Sched]

// Heartbeat counts scheduler steps of the whole process (watchdog: a run that
// keeps stepping is slow, not stuck).
var Heartbeat atomic.Uint64

// Cur returns the active scheduler or nil outside a run.
func Cur() *Sched { return cur.Load() }

// Action is one thing the scheduler may do at a quiescent point.
type Action struct {
	Key      string // canonical, stable across executions of one seed
	Internal bool   // zero-duration (library-internal order only): blocks TICK
	Do       func()
}

// Source contributes non-goroutine actions (network deliveries, faults).
type Source interface {
	Actions(now time.Time) []Action
	// NextDue is the delay until the source will have a new action without
	// anything else happening (latency timers); ok=false if none.
	NextDue(now time.Time) (time.Duration, bool)
	// Idle reports that nothing is pending at all (used by Settle).
	Idle() bool
}

// G is the simulator's view of one goroutine.
type G struct {
	ID    string
	spawn map[string]int
	selN  uint64
	evN   uint64
	rndN  uint64
}

type park struct {
	g       *G
	kind    string
	site    string
	intern  bool
	seq     uint64
	release chan struct{}
}

func (p *park) key() string { return p.g.ID + "@" + p.kind + ":" + p.site }

type settleReq struct {
	until time.Time
	done  chan struct{}
}

// Config of the scheduling policy of one run.
type Config struct {
	Policy    string  // "random" | "rtc" | "pct"
	PreemptP  float64 // rtc: probability of switching away from the last goroutine
	PCTDepth  int
	TickP     float64 // probability of choosing TICK when harness parks are also enabled
	MaxSteps  int
	MaxFake   time.Duration
	Quantum   time.Duration // max clock advance per TICK
	Follow    []string      // replay: decisions to follow
	Lenient   bool          // replay: on mismatch fall back to first enabled instead of failing
	PCTPoints int           // expected run length for placing PCT change points
	FineMod   int           // >0: statement-level parks in 1/FineMod of the library's functions
}

type Stats struct {
	Steps       int
	Ticks       int
	Parks       map[string]int // by kind
	AnonParks   int
	MaxEnabled  int
	Preemptions int
	FakeNanos   int64
	Pairs       map[string]struct{} // <released site | other parked sites> coverage measure
}

type Sched struct {
	Seed uint64
	Cfg  Config

	mu      sync.Mutex
	parked  []*park
	parkSeq uint64
	wake    chan struct{}

	gs       sync.Map // goid -> *G
	fine     sync.Map // function name -> selected for statement-level scheduling
	names    map[string]int
	anonN    map[string]int
	rootGoid uint64

	free    atomic.Bool
	step    atomic.Uint64
	sources []Source
	rng     *RNG
	start   time.Time

	settle   *settleReq
	mainDone atomic.Bool

	Decisions []string
	hash      uint64
	lastG     string
	pctPrio   map[string]uint64
	pctChange map[int]bool
	followPos int

	Aborted  string // "", "steps", "faketime", "diverged: ..."
	Stats    Stats
	evMu     sync.Mutex
	Events   []Event
	OnStep   func(s *Sched)    // invariants, evaluated at every quiescent point
	Acted    bool              // set by OnStep hooks that woke goroutines
	ForceAt  map[uint64]string // step -> action key prefix that must be picked at that step if enabled
	TraceOut func(string)      // optional verbose trace
	TraceAll bool              // include the enabled set in every trace line
}

// Event is a history entry stamped with the scheduler step.
type Event struct {
	Step uint64
	G    string
	Seq  uint64
	Kind string
	A    string
	B    string
	N    int64
}

func New(seed uint64, cfg Config) *Sched {
	if cfg.MaxSteps == 0 {
		cfg.MaxSteps = 20000
	}
	if cfg.MaxFake == 0 {
		cfg.MaxFake = 2 * time.Hour
	}
	if cfg.Quantum == 0 {
		cfg.Quantum = time.Hour
	}
	if cfg.Policy == "" {
		cfg.Policy = "random"
	}
	s := &Sched{Seed: seed, Cfg: cfg, rng: NewRNG(seed).Sub("sched"),
		ForceAt: map[uint64]string{}, names: map[string]int{}, anonN: map[string]int{}, pctPrio: map[string]uint64{}, pctChange: map[int]bool{}}
	s.Stats.Parks = map[string]int{}
	s.Stats.Pairs = map[string]struct{}{}
	if cfg.Policy == "pct" {
		n := cfg.PCTPoints
		if n <= 0 {
			n = 400
		}
		r := NewRNG(seed).Sub("pct")
		for i := 0; i < cfg.PCTDepth; i++ {
			s.pctChange[r.Intn(n)] = true
		}
	}
	return s
}

func (s *Sched) AddSource(src Source) { s.sources = append(s.sources, src) }
func (s *Sched) Step() uint64         { return s.step.Load() }
func (s *Sched) Now() time.Duration   { return time.Since(s.start) }
func (s *Sched) Hash() uint64         { return s.hash }

// ---- goroutine identity -----------------------------------------------------

func goid() uint64 {
	var buf [40]byte
	n := runtime.Stack(buf[:], false)
	// "goroutine 123 ["
	b := buf[10:n]
	var id uint64
	for _, c := range b {
		if c < '0' || c > '9' {
			break
		}
		id = id*10 + uint64(c-'0')
	}
	return id
}

func stackSig(skip, depth int) string {
	var pcs [16]uintptr
	n := runtime.Callers(skip+1, pcs[:])
	fr := runtime.CallersFrames(pcs[:n])
	var parts []string
	for len(parts) < depth {
		f, more := fr.Next()
		fn := f.Function
		if !strings.Contains(fn, "simrt.") && !strings.Contains(fn, "ssync.") {
			if i := strings.LastIndex(fn, "/"); i >= 0 {
				fn = fn[i+1:]
			}
			parts = append(parts, fn+":"+strconv.Itoa(f.Line))
		}
		if !more {
			break
		}
	}
	return strings.Join(parts, "<")
}

// CallerSite returns "file.go:line" of the first caller outside simrt/ssync.
func CallerSite(skip int) string {
	var pcs [8]uintptr
	n := runtime.Callers(skip+1, pcs[:])
	fr := runtime.CallersFrames(pcs[:n])
	for {
		f, more := fr.Next()
		if !strings.Contains(f.Function, "/simrt.") && !strings.Contains(f.Function, "/ssync.") && !strings.Contains(f.Function, "/srand.") {
			file := f.File
			if i := strings.LastIndex(file, "/"); i >= 0 {
				file = file[i+1:]
			}
			return file + ":" + strconv.Itoa(f.Line)
		}
		if !more {
			return "?"
		}
	}
}

func (s *Sched) uniqueName(name string) string {
	s.mu.Lock()
	defer s.mu.Unlock()
	s.names[name]++
	if n := s.names[name]; n > 1 {
		return name + "." + strconv.Itoa(n)
	}
	return name
}

// parentOf parses "created by F in goroutine N" from the current goroutine's
// stack dump (goroutines started by un-instrumented code such as net/http).
func parentOf() (fn string, parent uint64) {
	buf := make([]byte, 64<<10)
	n := runtime.Stack(buf, false)
	st := string(buf[:n])
	i := strings.LastIndex(st, "\ncreated by ")
	if i < 0 {
		return "", 0
	}
	line := st[i+len("\ncreated by "):]
	if j := strings.IndexByte(line, '\n'); j >= 0 {
		line = line[:j]
	}
	k := strings.LastIndex(line, " in goroutine ")
	if k < 0 {
		return "", 0
	}
	fn = line[:k]
	if j := strings.LastIndex(fn, "/"); j >= 0 {
		fn = fn[j+1:]
	}
	parent, _ = strconv.ParseUint(strings.TrimSpace(line[k+len(" in goroutine "):]), 10, 64)
	return fn, parent
}

// childOfKnown derives an identity from a known parent goroutine and the
// creating function; nil if the parent is unknown.
func (s *Sched) childOfKnown(gid uint64) *G {
	fn, parent := parentOf()
	if parent == 0 {
		return nil
	}
	v, ok := s.gs.Load(parent)
	if !ok {
		return nil
	}
	pg := v.(*G)
	s.mu.Lock()
	pg.spawn["~"+fn]++
	k := pg.spawn["~"+fn]
	s.mu.Unlock()
	g := &G{ID: pg.ID + ">~" + fn + "#" + strconv.Itoa(k), spawn: map[string]int{}}
	s.gs.Store(gid, g)
	return g
}

func (s *Sched) self() *G {
	gid := goid()
	if v, ok := s.gs.Load(gid); ok {
		return v.(*G)
	}
	if g := s.childOfKnown(gid); g != nil {
		return g
	}
	sig := stackSig(2, 5)
	s.mu.Lock()
	s.anonN[sig]++
	n := s.anonN[sig]
	s.Stats.AnonParks++
	s.mu.Unlock()
	g := &G{ID: "anon[" + sig + "]#" + strconv.Itoa(n), spawn: map[string]int{}}
	s.gs.Store(gid, g)
	return g
}

// Self returns the current goroutine's simulator id ("" outside a run).
func Self() string {
	s := cur.Load()
	if s == nil {
		return ""
	}
	return s.self().ID
}

// Adopt names the current goroutine if it has no identity yet (goroutines
// started by un-instrumented code such as net/http); returns its id.
func Adopt(name string) string {
	s := cur.Load()
	if s == nil {
		return ""
	}
	gid := goid()
	if v, ok := s.gs.Load(gid); ok {
		return v.(*G).ID
	}
	g := &G{ID: s.uniqueName(name), spawn: map[string]int{}}
	s.gs.Store(gid, g)
	return g.ID
}

// AdoptChild is like Adopt but prefers an identity derived from a known parent
// goroutine (deterministic even when several such goroutines start at once).
func AdoptChild(fallback string) string {
	s := cur.Load()
	if s == nil {
		return ""
	}
	gid := goid()
	if v, ok := s.gs.Load(gid); ok {
		return v.(*G).ID
	}
	if g := s.childOfKnown(gid); g != nil {
		return g.ID
	}
	return Adopt(fallback)
}

// Spawn allocates the identity of a child goroutine; called in the parent by
// instrumented `go` statements.
func Spawn(site string) string {
	s := cur.Load()
	if s == nil {
		return ""
	}
	g := s.self()
	g.spawn[site]++
	return g.ID + ">" + site + "#" + strconv.Itoa(g.spawn[site])
}

// RunG is the body wrapper of an instrumented `go` statement.
func RunG(id string, f func()) {
	s := cur.Load()
	if s == nil || id == "" {
		f()
		return
	}
	gid := goid()
	s.gs.Store(gid, &G{ID: id, spawn: map[string]int{}})
	defer s.gs.Delete(gid)
	// the start of a goroutine is a scheduling point: a real scheduler may run the
	// parent (and anybody else) for a long time before the child's first statement
	site := id
	if i := strings.LastIndex(site, ">"); i >= 0 {
		site = site[i+1:]
	}
	if i := strings.LastIndex(site, "#"); i >= 0 {
		site = site[:i]
	}
	s.park("go", site, true)
	f()
}

// Go starts a named harness task. The task parks before running its body so
// that its start is a scheduler decision.
func (s *Sched) Go(name string, f func()) {
	id := s.uniqueName(name)
	go func() {
		gid := goid()
		s.gs.Store(gid, &G{ID: id, spawn: map[string]int{}})
		defer s.gs.Delete(gid)
		s.park("h", "start", false)
		f()
	}()
}

// ---- parking ----------------------------------------------------------------

// Park is the library-internal scheduling point (zero duration).
func Park(kind, site string) {
	s := cur.Load()
	if s == nil {
		return
	}
	s.park(kind, site, true)
}

// Stmt is the statement-level scheduling point inserted before every statement
// of the library. It parks only in runs that selected function fn for
// fine-grained scheduling (Config.FineMod > 0 and hash(seed, fn) % FineMod == 0).
func Stmt(fn, site string) {
	s := cur.Load()
	if s == nil || s.Cfg.FineMod <= 0 || s.free.Load() {
		return
	}
	if !s.fineFn(fn) {
		return
	}
	s.park("stmt", site, true)
}

func (s *Sched) fineFn(fn string) bool {
	if v, ok := s.fine.Load(fn); ok {
		return v.(bool)
	}
	sel := HashStr(s.Seed, "fine|"+fn)%uint64(s.Cfg.FineMod) == 0
	s.fine.Store(fn, sel)
	return sel
}

// Yield is a harness scheduling point; time may pass while parked here.
func Yield(name string) {
	s := cur.Load()
	if s == nil {
		return
	}
	s.park("h", name, false)
}

func (s *Sched) park(kind, site string, intern bool) {
	if s.free.Load() {
		Heartbeat.Add(1) // free-running teardown of a large world is progress too
		return
	}
	gid := goid()
	if gid == s.rootGoid {
		return
	}
	g := s.self()
	p := &park{g: g, kind: kind, site: site, intern: intern, release: make(chan struct{})}
	s.mu.Lock()
	if s.free.Load() {
		s.mu.Unlock()
		return
	}
	s.parkSeq++
	p.seq = s.parkSeq
	s.parked = append(s.parked, p)
	s.Stats.Parks[kind]++
	s.mu.Unlock()
	select {
	case s.wake <- struct{}{}:
	default:
	}
	<-p.release
}

// ---- history ------------------------------------------------------------------

// Rec appends a history event stamped with the current step. Events of one step
// are ordered canonically (by goroutine id, then per-goroutine sequence) when
// the history is read with History().
func Rec(kind, a, b string, n int64) {
	s := cur.Load()
	if s == nil {
		return
	}
	g := s.self()
	g.evN++
	e := Event{Step: s.step.Load(), G: g.ID, Seq: g.evN, Kind: kind, A: a, B: b, N: n}
	s.evMu.Lock()
	s.Events = append(s.Events, e)
	s.evMu.Unlock()
}

func (s *Sched) History() []Event {
	s.evMu.Lock()
	ev := append([]Event(nil), s.Events...)
	s.evMu.Unlock()
	sort.SliceStable(ev, func(i, j int) bool {
		if ev[i].Step != ev[j].Step {
			return ev[i].Step < ev[j].Step
		}
		if ev[i].G != ev[j].G {
			return ev[i].G < ev[j].G
		}
		return ev[i].Seq < ev[j].Seq
	})
	return ev
}

// ---- per-goroutine deterministic randomness -----------------------------------

// GRand returns a value derived from (seed, goroutine id, per-goroutine counter),
// independent of how goroutines interleave.
func GRand(stream string) uint64 {
	s := cur.Load()
	if s == nil {
		return mix(uint64(time.Now().UnixNano()))
	}
	g := s.self()
	g.rndN++
	return HashStr(s.Seed^mix(g.rndN), stream+"|"+g.ID)
}

// ---- the loop -----------------------------------------------------------------

// Settle blocks the calling harness task until the system is quiescent (nothing
// enabled but the clock) and at least d of fake time has passed.
func (s *Sched) Settle(d time.Duration) bool {
	if s.free.Load() {
		return false
	}
	req := &settleReq{until: time.Now().Add(d), done: make(chan struct{})}
	s.mu.Lock()
	s.settle = req
	s.mu.Unlock()
	select {
	case s.wake <- struct{}{}:
	default:
	}
	<-req.done
	return !s.free.Load()
}

// Sleep lets fake time pass for the calling harness task.
func (s *Sched) Sleep(d time.Duration) { time.Sleep(d) }

// Run executes main as the task "main" under the scheduler and returns when
// main has returned (or a cap was hit). Must be called from the root goroutine
// of a synctest bubble.
func (s *Sched) Run(main func()) {
	s.wake = make(chan struct{}, 1)
	s.start = time.Now()
	s.rootGoid = goid()
	s.gs.Store(s.rootGoid, &G{ID: "sched", spawn: map[string]int{}})
	cur.Store(s)
	defer func() {
		s.Stats.FakeNanos = int64(time.Since(s.start))
		s.Stats.Steps = int(s.step.Load())
	}()

	s.Go("main", func() {
		defer s.mainDone.Store(true)
		main()
	})

	for {
		synctest.Wait()
		if s.mainDone.Load() {
			break
		}
		if s.OnStep != nil {
			s.Acted = false
			s.OnStep(s)
			if s.Aborted != "" {
				break
			}
			if s.Acted {
				continue // a hook woke goroutines: wait for quiescence again
			}
		}
		if int(s.step.Load()) >= s.Cfg.MaxSteps {
			s.Aborted = "steps"
			break
		}
		if time.Since(s.start) > s.Cfg.MaxFake {
			s.Aborted = "faketime"
			break
		}
		if !s.stepOnce() {
			break
		}
	}
	s.FreeRun()
}

// FreeRun switches to teardown mode: all parks are released and Park becomes a
// no-op, sources are expected to switch to pass-through by themselves.
func (s *Sched) FreeRun() {
	s.mu.Lock()
	s.free.Store(true)
	ps := s.parked
	s.parked = nil
	st := s.settle
	s.settle = nil
	s.mu.Unlock()
	for _, p := range ps {
		close(p.release)
	}
	if st != nil {
		close(st.done)
	}
}

func (s *Sched) Free() bool { return s.free.Load() }

// Detach removes the scheduler as the process-wide current one.
func (s *Sched) Detach() { cur.CompareAndSwap(s, nil) }

const tickKey = "~tick"

func (s *Sched) stepOnce() bool {
	now := time.Now()
	s.mu.Lock()
	parked := append([]*park(nil), s.parked...)
	st := s.settle
	s.mu.Unlock()

	var acts []Action
	internal := false
	for _, p := range parked {
		p := p
		acts = append(acts, Action{Key: "g:" + p.key(), Internal: p.intern, Do: func() { s.release(p) }})
		if p.intern {
			internal = true
		}
	}
	idle := true
	for _, src := range s.sources {
		for _, a := range src.Actions(now) {
			acts = append(acts, a)
			if a.Internal {
				internal = true
			}
		}
		if !src.Idle() {
			idle = false
		}
	}
	sort.SliceStable(acts, func(i, j int) bool { return acts[i].Key < acts[j].Key })
	for i := 1; i < len(acts); i++ {
		if acts[i].Key == acts[i-1].Key {
			// identical keys would make the choice depend on arrival order
			s.Aborted = "machinery: duplicate action key " + acts[i].Key
			return false
		}
	}

	if st != nil && len(acts) == 0 && idle && !now.Before(st.until) {
		s.mu.Lock()
		s.settle = nil
		s.mu.Unlock()
		close(st.done)
		return true
	}

	tickOK := !internal
	if tickOK {
		acts = append(acts, Action{Key: tickKey})
	}
	if len(acts) == 0 {
		s.Aborted = "machinery: nothing enabled"
		return false
	}
	if len(acts) > s.Stats.MaxEnabled {
		s.Stats.MaxEnabled = len(acts)
	}

	idx, ok := s.pick(acts, tickOK)
	if !ok {
		return false
	}
	a := acts[idx]
	n := s.step.Add(1)
	Heartbeat.Add(1)
	s.Decisions = append(s.Decisions, a.Key)
	s.hash = HashStr(s.hash^uint64(len(acts)), a.Key)
	if s.TraceOut != nil {
		if s.TraceAll {
			var ks []string
			for _, x := range acts {
				ks = append(ks, x.Key)
			}
			s.TraceOut(fmt.Sprintf("%d t=%v pick %s of %d   [%s]", n, now.Sub(s.start), a.Key, len(acts), strings.Join(ks, " ")))
		} else {
			s.TraceOut(fmt.Sprintf("%d t=%v pick %s of %d", n, now.Sub(s.start), a.Key, len(acts)))
		}
	}
	if a.Key == tickKey {
		s.tick(st, now, len(acts) > 1)
		return true
	}
	if strings.HasPrefix(a.Key, "g:") {
		if s.lastG != "" && s.lastG != a.Key {
			for _, o := range acts {
				if o.Key == s.lastG {
					s.Stats.Preemptions++
					break
				}
			}
		}
		// coverage measure: released site given the set of other parked sites
		if len(s.Stats.Pairs) < 200000 {
			var others []string
			for _, p := range parked {
				k := p.kind + ":" + p.site
				others = append(others, k)
			}
			sort.Strings(others)
			site := a.Key[strings.Index(a.Key, "@")+1:]
			s.Stats.Pairs[site+"|"+strings.Join(others, ",")] = struct{}{}
		}
	}
	s.lastG = a.Key
	a.Do()
	return true
}

func (s *Sched) release(p *park) {
	s.mu.Lock()
	for i, q := range s.parked {
		if q == p {
			s.parked = append(s.parked[:i], s.parked[i+1:]...)
			break
		}
	}
	s.mu.Unlock()
	close(p.release)
}

func (s *Sched) tick(st *settleReq, now time.Time, voluntary bool) {
	s.Stats.Ticks++
	d := s.Cfg.Quantum
	if voluntary {
		// other (harness) actions are enabled: let a random, modest amount of
		// time pass (log-uniform 100us .. ~6s) instead of jumping to the next timer
		// derived from (seed, step), not from the policy stream: a replay that follows
		// recorded decisions draws nothing from the policy stream and must still
		// advance the clock by exactly the same amounts
		h := HashStr(s.Seed, "tick|"+strconv.FormatUint(s.step.Load(), 10))
		d = time.Duration(100e3 * float64(uint64(1)<<uint(h%17)) * (1 + float64(mix(h)>>11)/(1<<53)))
	}
	for _, src := range s.sources {
		if nd, ok := src.NextDue(now); ok && nd < d {
			d = nd
		}
	}
	if st != nil {
		if rem := st.until.Sub(now); rem > 0 && rem < d {
			d = rem
		}
	}
	if d <= 0 {
		d = time.Nanosecond
	}
	// drain stale wake tokens: everything parked so far is already known
	select {
	case <-s.wake:
	default:
	}
	t := time.NewTimer(d)
	select {
	case <-s.wake:
		t.Stop()
	case <-t.C:
	}
}

func (s *Sched) pick(acts []Action, tickOK bool) (int, bool) {
	// replay
	if s.followPos < len(s.Cfg.Follow) {
		want := s.Cfg.Follow[s.followPos]
		s.followPos++
		for i, a := range acts {
			if a.Key == want {
				return i, true
			}
		}
		if s.Cfg.Lenient {
			// re-synchronise: skip recorded decisions that no longer apply (their
			// task was minimised away) up to a window, else fall back to the policy
			s.followPos--
			enabled := map[string]int{}
			for i, a := range acts {
				enabled[a.Key] = i
			}
			for j := s.followPos; j < len(s.Cfg.Follow) && j < s.followPos+60; j++ {
				if i, ok := enabled[s.Cfg.Follow[j]]; ok {
					s.followPos = j + 1
					return i, true
				}
			}
			s.followPos++
		}
		if !s.Cfg.Lenient {
			var ks []string
			for _, a := range acts {
				ks = append(ks, a.Key)
			}
			s.Aborted = fmt.Sprintf("diverged at step %d: want %q, enabled %v", s.step.Load()+1, want, ks)
			return 0, false
		}
		// lenient: fall through to the policy
	} else if len(s.Cfg.Follow) > 0 && !s.Cfg.Lenient {
		// strict replay ran out of decisions: continue with run-to-completion
	}

	if want, ok := s.ForceAt[s.step.Load()]; ok {
		for i, a := range acts {
			if strings.HasPrefix(a.Key, want) {
				return i, true
			}
		}
	}
	nonTick := len(acts)
	if tickOK {
		nonTick--
	}
	if nonTick == 0 {
		return len(acts) - 1, true // only TICK
	}
	if tickOK && s.rng.Bool(s.Cfg.TickP) {
		return len(acts) - 1, true
	}
	switch s.Cfg.Policy {
	case "rtc":
		if s.lastG != "" && !s.rng.Bool(s.Cfg.PreemptP) {
			// keep running the same goroutine if it is enabled again
			gid := s.lastG
			if i := strings.Index(gid, "@"); i >= 0 {
				gid = gid[:i+1]
			}
			for i := 0; i < nonTick; i++ {
				if strings.HasPrefix(acts[i].Key, gid) {
					return i, true
				}
			}
		}
		return s.rng.Intn(nonTick), true
	case "pct":
		if s.pctChange[int(s.step.Load())] && s.lastG != "" {
			gid := s.lastG
			if i := strings.Index(gid, "@"); i >= 0 {
				gid = gid[:i]
			}
			s.pctPrio[gid] = s.rng.Uint64() >> 32 // demote
		}
		best, bestP := 0, uint64(0)
		for i := 0; i < nonTick; i++ {
			gid := acts[i].Key
			if j := strings.Index(gid, "@"); j >= 0 {
				gid = gid[:j]
			}
			p, ok := s.pctPrio[gid]
			if !ok {
				p = HashStr(s.Seed, "pct|"+gid) | (1 << 63)
				s.pctPrio[gid] = p
			}
			if i == 0 || p > bestP {
				best, bestP = i, p
			}
		}
		return best, true
	default:
		return s.rng.Intn(nonTick), true
	}
}
