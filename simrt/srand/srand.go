// Package srand replaces "math/rand" in the instrumented copy of the library
// (Go >= 1.24 ignores rand.Seed, so the global generator cannot be pinned).
// Values derive from (run seed, goroutine identity, per-goroutine counter).
package srand

import (
	"math/rand"

	"verifsim/simrt"
)

func u64() uint64 { return simrt.GRand("rand") }

func Float64() float64 { return float64(u64()>>11) / (1 << 53) }
func Float32() float32 { return float32(Float64()) }
func Int63() int64     { return int64(u64() >> 1) }
func Int31() int32     { return int32(u64() >> 33) }
func Uint32() uint32   { return uint32(u64() >> 32) }
func Uint64() uint64   { return u64() }
func Int() int         { return int(u64() >> 1) }
func Int63n(n int64) int64 {
	if n <= 0 {
		panic("invalid argument to Int63n")
	}
	return int64(u64()>>1) % n
}
func Int31n(n int32) int32 { return int32(Int63n(int64(n))) }
func Intn(n int) int       { return int(Int63n(int64(n))) }
func Perm(n int) []int {
	p := make([]int, n)
	for i := range p {
		p[i] = i
	}
	for i := n - 1; i > 0; i-- {
		j := Intn(i + 1)
		p[i], p[j] = p[j], p[i]
	}
	return p
}
func Shuffle(n int, swap func(i, j int)) {
	for i := n - 1; i > 0; i-- {
		swap(i, Intn(i+1))
	}
}
func Seed(int64) {}

type (
	Rand   = rand.Rand
	Source = rand.Source
)

func New(src Source) *Rand     { return rand.New(src) }
func NewSource(s int64) Source { return rand.NewSource(s) }
