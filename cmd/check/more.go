package main

import (
	"encoding/json"
	"fmt"
	"os"
	"path/filepath"
	"sort"
	"strings"
	"sync"
	"time"
)

// ---- minimisation ---------------------------------------------------------------------

type rfile map[string]json.RawMessage

func loadRF(path string) (rfile, error) {
	b, err := os.ReadFile(path)
	if err != nil {
		return nil, err
	}
	var rf rfile
	if err := json.Unmarshal(b, &rf); err != nil {
		return nil, err
	}
	return rf, nil
}

func (rf rfile) clone() rfile {
	n := rfile{}
	for k, v := range rf {
		n[k] = v
	}
	return n
}

func (rf rfile) plan() map[string]json.RawMessage {
	var p map[string]json.RawMessage
	_ = json.Unmarshal(rf["plan"], &p)
	return p
}

func (rf rfile) list(key string) []json.RawMessage {
	var l []json.RawMessage
	_ = json.Unmarshal(rf.plan()[key], &l)
	return l
}

func (rf rfile) withList(key string, l []json.RawMessage) rfile {
	p := rf.plan()
	if l == nil {
		l = []json.RawMessage{}
	}
	b, _ := json.Marshal(l)
	p[key] = b
	pb, _ := json.Marshal(p)
	n := rf.clone()
	n["plan"] = pb
	// the recorded decisions are kept: lenient replay re-synchronises around
	// decisions of tasks that no longer exist
	return n
}

func (rf rfile) seed() uint64 {
	var s uint64
	_ = json.Unmarshal(rf["seed"], &s)
	return s
}

func (rf rfile) write(path string) error {
	b, _ := json.Marshal(rf)
	return os.WriteFile(path, b, 0o644)
}

var candN int
var candMu sync.Mutex

// tryCandidate runs the candidate under a few schedule seeds; returns the path
// of a re-recorded failing replay or "".
func (d *driver) tryCandidate(rf rfile, want string, nseeds int) string {
	base := rf.seed()
	type res struct{ path string }
	out := make(chan string, nseeds)
	for i := 0; i < nseeds; i++ {
		go func(i int) {
			c := rf.clone()
			sb, _ := json.Marshal(base + uint64(i)*7919)
			c["seed"] = sb
			candMu.Lock()
			candN++
			p := filepath.Join(d.scratch, fmt.Sprintf("cand-%d.json", candN))
			candMu.Unlock()
			if c.write(p) != nil {
				out <- ""
				return
			}
			ok, rec := d.replayOnce(p, want, true)
			if ok {
				if rec == "" {
					rec = p
				}
				out <- rec
				return
			}
			out <- ""
		}(i)
	}
	best := ""
	for i := 0; i < nseeds; i++ {
		if p := <-out; p != "" && best == "" {
			best = p
		}
	}
	return best
}

func (d *driver) minimise(path, want string) string {
	budget := 60 * time.Second
	if d.tier == "thorough" {
		budget = 6 * time.Minute
	}
	deadline := time.Now().Add(budget)
	best := path
	rf, err := loadRF(path)
	if err != nil {
		return path
	}
	if want == "crash" {
		// crash replays cannot be re-recorded by the dying process; only shrink the plan
	}
	changed := true
	for changed && time.Now().Before(deadline) {
		changed = false
		for _, key := range []string{"faults", "ops"} {
			l := rf.list(key)
			// chunked removal first, then single elements
			for size := len(l) / 2; size >= 1 && time.Now().Before(deadline); size /= 2 {
				for i := 0; i+size <= len(l) && time.Now().Before(deadline); {
					cand := append(append([]json.RawMessage{}, l[:i]...), l[i+size:]...)
					crf := rf.withList(key, cand)
					if p := d.tryCandidate(crf, want, 4); p != "" {
						if want == "crash" {
							tmp := filepath.Join(d.scratch, fmt.Sprintf("min-%d.json", time.Now().UnixNano()))
							nrf, _ := loadRF(p)
							if nrf != nil {
								nrf["crash"] = rf["crash"]
								nrf.write(tmp)
								p = tmp
							}
						}
						if nrf, err := loadRF(p); err == nil {
							rf, best, l, changed = nrf, p, cand, true
							continue
						}
					}
					i += size
				}
			}
		}
	}
	// schedule: shortest decision prefix after which run-to-completion still fails
	if want != "crash" && time.Now().Before(deadline) {
		var dec []string
		_ = json.Unmarshal(rf["decisions"], &dec)
		lo, hi := 0, len(dec)
		bestP := ""
		var bestRF rfile
		for lo < hi && time.Now().Before(deadline) {
			mid := (lo + hi) / 2
			c := rf.clone()
			db, _ := json.Marshal(dec[:mid])
			c["decisions"] = db
			var cfg map[string]interface{}
			_ = json.Unmarshal(rf["cfg"], &cfg)
			cfg["policy"], cfg["preempt_p"], cfg["tick_p"] = "rtc", 0.0, 0.0
			cb, _ := json.Marshal(cfg)
			c["cfg"] = cb
			if p := d.tryCandidate(c, want, 1); p != "" {
				hi = mid
				bestP = p
				bestRF, _ = loadRF(p)
			} else {
				lo = mid + 1
			}
		}
		if bestP != "" && bestRF != nil {
			note, _ := json.Marshal(fmt.Sprintf("minimised: %d ops, %d faults; schedule = %d recorded decisions then run-to-completion", len(bestRF.list("ops")), len(bestRF.list("faults")), hi))
			bestRF["note"] = note
			bestRF.write(bestP)
			best = bestP
		}
	}
	return best
}

// ---- evidence -------------------------------------------------------------------------

// Every check reports the level claimed in MANIFEST.json (exploration): the
// thorough tiers sweep fault positions / instants systematically but still
// sample schedules, which is search, not enumeration of a closed space.
func (d *driver) level() string { return "exploration" }

func sortedKV(m map[string]int) map[string]int { return m }

func (d *driver) writeEvidence(t0 time.Time, nviol int, known []string) {
	wall := time.Since(t0).Seconds()
	samples := []interface{}{}
	for _, s := range d.samples {
		var v interface{}
		if json.Unmarshal(s, &v) == nil {
			samples = append(samples, v)
		}
	}
	if len(samples) == 0 {
		samples = append(samples, "no sample plan captured in this run")
	}
	runsPerHour := 0.0
	if wall > 0 {
		runsPerHour = float64(d.results) / wall * 3600
	}
	cov := map[string]interface{}{
		"evaluations":         d.results,
		"distinct_nontrivial": len(d.ntHashes),
		"rule": "one evaluation = one simulated run (one seed: generated workload + fault plan + scheduling policy) of the real library inside a synctest bubble; " +
			"distinct = distinct hash of the full scheduler decision trace; non-trivial = the scenario's own rule (concurrent operations present, at least one pre-emption / fault actually fired as applicable), evaluated per run by the worker",
		"samples":                       samples,
		"runs_per_hour":                 int(runsPerHour),
		"simulated_time_s":              float64(d.fakeNs) / 1e9,
		"scheduler_steps":               d.steps,
		"clock_advances":                d.ticks,
		"distinct_decision_traces":      len(d.hashes),
		"distinct_release_site_pairs":   len(d.pairs),
		"preemptions":                   d.preempt,
		"faults_fired":                  d.fired,
		"probes_hit":                    d.probes,
		"parks_by_kind":                 d.parks,
		"workload_families":             d.families,
		"policies":                      d.policies,
		"verdicts":                      d.verdicts,
		"process_crashes":               d.crashes,
		"worker_stalls_retried_ok":      d.stallRetried,
		"runs_with_leftover_goroutines": d.leftover,
		"anonymous_goroutine_parks":     d.anon,
		"known_findings_met":            known,
		"instrumentation_skipped":       d.skipUsed,
		"tree":                          treeID(),
		"real_components":               []string{"go-jsonrpc (source-instrumented copy of /repo's working tree: lock type, select polling order, reflect.Select, go-statement identity, map iteration order, jitter source)", "gorilla/websocket v1.4.2 (unmodified)", "net/http server and Transport", "encoding/json", "context"},
		"simulated_components":          []string{"network (listener, dial, byte streams, deadlines, faults)", "clock and timers (testing/synctest)", "goroutine scheduling at parks", "server handlers, client-side reverse handlers, callers, producers, consumers (harness)"},
	}
	ev := map[string]interface{}{
		"property_id": d.prop,
		"tier":        d.tier,
		"seed":        d.seed,
		"level":       d.level(),
		"coverage":    cov,
		"assumptions": []string{
			"search over seeds, not proof: a clean batch is evidence only",
			"goroutines can be pre-empted at lock acquisitions, multi-way selects, reflect.Select, goroutine starts, simulated network writes, dials and harness yields in every run, and before every statement of a hashed subset of the library's functions in one run out of six (parks of kind stmt); never inside a statement, inside gorilla/websocket, net/http or the standard library",
			"the simulated transport has TCP semantics (no loss/reordering/duplication on a live stream)",
			"stretches between two parks of different goroutines released in one step are assumed to commute (measured by the determinism self-test)",
		},
		"wall_s":     wall,
		"violations": nviol,
	}
	b, _ := json.MarshalIndent(ev, "", " ")
	os.MkdirAll(filepath.Join(verifDir, "evidence"), 0o755)
	if err := os.WriteFile(filepath.Join(verifDir, "evidence", d.prop+".json"), b, 0o644); err != nil {
		fmt.Fprintln(os.Stderr, "MACHINERY: cannot write evidence:", err)
	}
}

// ---- determinism self-test --------------------------------------------------------------

// selftest runs, for every property scenario given in SELFTEST_PROPS (default:
// all registered), N seeds x R repetitions in separate processes across
// GOMAXPROCS 1/4/16 and compares decision-trace and history hashes.
func (d *driver) selftest() int {
	props := strings.Fields(envOr("SELFTEST_PROPS", "C02"))
	nseeds := int(envU64("SELFTEST_SEEDS", 30))
	reps := int(envU64("SELFTEST_REPS", 4))
	bad := 0
	total := 0
	for _, prop := range props {
		d.prop = prop
		type key struct {
			seed uint64
		}
		var mu sync.Mutex
		hashes := map[uint64]map[string]int{}
		var wg sync.WaitGroup
		sem := make(chan struct{}, 16)
		for r := 0; r < reps; r++ {
			gmp := []string{"1", "4", "16", "2"}[r%4]
			for s := 0; s < nseeds; s += 10 {
				wg.Add(1)
				sem <- struct{}{}
				go func(start uint64, gmp string) {
					defer wg.Done()
					defer func() { <-sem }()
					next := start
					end := start + 10
					for next < end {
						wo := d.runWorker([]string{fmt.Sprintf("SIM_SEEDS=%d:%d", next, end-next), "GOMAXPROCS=" + gmp}, 5*time.Minute)
						mu.Lock()
						for _, r := range wo.results {
							if hashes[r.Seed] == nil {
								hashes[r.Seed] = map[string]int{}
							}
							hashes[r.Seed][r.Hash+"/"+r.HistHash+"/"+r.Verdict]++
						}
						mu.Unlock()
						next += uint64(wo.lastEnd)
						if wo.crashed || wo.watchdog {
							next++
						}
						if wo.lastEnd == 0 && !wo.crashed && !wo.watchdog {
							break
						}
					}
				}(d.seed*1000+uint64(s), gmp)
			}
		}
		wg.Wait()
		var seeds []uint64
		for s := range hashes {
			seeds = append(seeds, s)
		}
		sort.Slice(seeds, func(i, j int) bool { return seeds[i] < seeds[j] })
		pbad := 0
		for _, s := range seeds {
			total++
			if len(hashes[s]) != 1 {
				bad++
				pbad++
				fmt.Printf("NONDETERMINISTIC %s seed=%d: %v\n", prop, s, hashes[s])
			}
		}
		fmt.Printf("selftest %s: %d seeds x %d repetitions, %d divergent\n", prop, len(seeds), reps, pbad)
		// replay fidelity: a recorded run, replayed strictly from its file in a
		// fresh process, must take exactly the same decisions
		nrep := int(envU64("SELFTEST_REPLAYS", 12))
		rbad := 0
		var rwg sync.WaitGroup
		var rmu sync.Mutex
		for i := 0; i < nrep; i++ {
			rwg.Add(1)
			sem <- struct{}{}
			go func(seed uint64) {
				defer rwg.Done()
				defer func() { <-sem }()
				wo := d.runWorker([]string{fmt.Sprintf("SIM_SEEDS=%d:1", seed), "SIM_SAVE_ALL=1", "SIM_OUT=" + d.scratch, "SIM_TAG=-st"}, 5*time.Minute)
				if len(wo.results) != 1 || wo.results[0].ReplayPath == "" {
					return
				}
				orig := wo.results[0]
				wr := d.runWorker([]string{"SIM_REPLAY=" + orig.ReplayPath}, 5*time.Minute)
				if len(wr.results) != 1 || wr.results[0].Hash != orig.Hash || wr.results[0].HistHash != orig.HistHash || wr.results[0].Verdict != orig.Verdict {
					rmu.Lock()
					rbad++
					got := "no result"
					if len(wr.results) == 1 {
						got = wr.results[0].Verdict + " " + wr.results[0].Hash + " " + wr.results[0].Aborted
					}
					fmt.Printf("REPLAY-MISMATCH %s seed=%d: recorded %s %s, replay %s\n", prop, seed, orig.Verdict, orig.Hash, got)
					rmu.Unlock()
				}
			}(d.seed*1000 + 500 + uint64(i))
		}
		rwg.Wait()
		bad += rbad
		fmt.Printf("selftest %s: %d recorded runs replayed from file, %d mismatches\n", prop, nrep, rbad)
	}
	if bad > 0 {
		return 2
	}
	return 0
}
