// check is the driver behind every MANIFEST command:
//
//	check <property> --tier quick|thorough [--seed N] [--replay file] [--budget seconds]
//
// It copies /repo's working tree to a scratch directory, instruments and builds
// it together with the harness, fans simulated runs out over worker processes,
// confirms / minimises violations, consults known_findings.json, writes
// evidence/<id>.json and exits 0 (held), 1 (VIOLATION lines printed) or 2
// (machinery trouble: build, watchdog, divergence, too many inconclusive runs).
package main

import (
	"bufio"
	"bytes"
	"encoding/json"
	"flag"
	"fmt"
	"os"
	"os/exec"
	"path/filepath"
	"regexp"
	"sort"
	"strconv"
	"strings"
	"sync"
	"time"
)

var verifDir = func() string {
	if d := os.Getenv("VERIF_DIR"); d != "" {
		return d
	}
	exe, _ := os.Executable()
	d := filepath.Dir(filepath.Dir(exe))
	if _, err := os.Stat(filepath.Join(d, "properties.jsonl")); err == nil {
		return d
	}
	return "/verif"
}()

type Violation struct {
	Oracle string `json:"oracle"`
	Detail string `json:"detail"`
}

type RunRes struct {
	Seed       uint64          `json:"seed"`
	Variant    int             `json:"variant"`
	Verdict    string          `json:"verdict"`
	Violations []Violation     `json:"violations"`
	Aborted    string          `json:"aborted"`
	Steps      int             `json:"steps"`
	Ticks      int             `json:"ticks"`
	FakeNs     int64           `json:"fake_ns"`
	Hash       string          `json:"hash"`
	HistHash   string          `json:"hist_hash"`
	Fired      map[string]int  `json:"fired"`
	Probes     map[string]int  `json:"probes"`
	Parks      map[string]int  `json:"parks"`
	Pairs      int             `json:"pairs"`
	Preempt    int             `json:"preempt"`
	Anon       int             `json:"anon"`
	Leftover   int             `json:"leftover"`
	Family     string          `json:"family"`
	Policy     string          `json:"policy"`
	NOps       int             `json:"nops"`
	NFaults    int             `json:"nfaults"`
	ReplayPath string          `json:"replay"`
	Sample     json.RawMessage `json:"sample"`
	Nontrivial bool            `json:"nontrivial"`
	WallUs     int64           `json:"wall_us"`
}

type Finding struct {
	Property string `json:"property"`
	Status   string `json:"status"` // known | fixed
	Oracle   string `json:"oracle"` // prefix of the oracle id, or "crash"
	Match    string `json:"match"`  // regexp over the violation detail / crash signature
	What     string `json:"what"`
	Commit   string `json:"commit,omitempty"`
}

type found struct {
	seed    uint64
	variant int
	viol    []Violation
	crash   string
	replay  string
}

type driver struct {
	prop     string
	tier     string
	seed     uint64
	budget   time.Duration
	scratch  string
	bin      string
	skipUsed string
	workers  int

	mu           sync.Mutex
	results      int
	verdicts     map[string]int
	steps        int64
	ticks        int64
	fakeNs       int64
	fired        map[string]int
	probes       map[string]int
	parks        map[string]int
	families     map[string]int
	policies     map[string]int
	hashes       map[string]bool
	ntHashes     map[string]bool
	pairs        map[string]bool
	samples      []json.RawMessage
	preempt      int64
	anon         int64
	leftover     int
	founds       []found
	machinery    []string
	unrepro      []string
	stalls       []string
	stallRetried int
	crashes      int
	wallUs       int64
}

func main() {
	if len(os.Args) < 2 {
		fmt.Fprintln(os.Stderr, "usage: check <property|selftest> [--tier quick|thorough] [--seed N] [--replay file] [--budget s]")
		os.Exit(2)
	}
	prop := os.Args[1]
	fs := flag.NewFlagSet("check", flag.ExitOnError)
	tier := fs.String("tier", envOr("VERIF_TIER", "quick"), "quick|thorough")
	seed := fs.Uint64("seed", envU64("VERIF_SEED", 1), "base seed")
	replay := fs.String("replay", "", "replay file")
	minimiseF := fs.String("minimise", "", "minimise this replay file (plan, then schedule) and print the result path")
	budget := fs.Int("budget", 0, "seconds of simulation (0 = tier default)")
	workers := fs.Int("workers", 16, "worker processes")
	keep := fs.Bool("keep", false, "keep scratch dir")
	nomin := fs.Bool("nomin", false, "skip minimisation")
	_ = fs.Parse(os.Args[2:])

	d := &driver{prop: prop, tier: *tier, seed: *seed, workers: *workers,
		verdicts: map[string]int{}, fired: map[string]int{}, probes: map[string]int{}, parks: map[string]int{},
		families: map[string]int{}, policies: map[string]int{}, hashes: map[string]bool{}, ntHashes: map[string]bool{}, pairs: map[string]bool{}}
	d.budget = time.Duration(*budget) * time.Second
	if d.budget == 0 {
		d.budget = 40 * time.Second
		if *tier == "thorough" {
			d.budget = 12 * time.Minute
		}
	}
	t0 := time.Now()
	scratch, err := os.MkdirTemp("", "verifsim-")
	if err != nil {
		fatal2("mktemp: %v", err)
	}
	d.scratch = scratch
	if !*keep {
		defer os.RemoveAll(scratch)
	}
	if err := d.build(); err != nil {
		os.RemoveAll(scratch)
		fatal2("build: %v", err)
	}
	code := 0
	switch {
	case prop == "selftest":
		code = d.selftest()
	case *minimiseF != "":
		b, err := os.ReadFile(*minimiseF)
		if err != nil {
			fatal2("%v", err)
		}
		var rf struct {
			Prop      string      `json:"property"`
			Seed      uint64      `json:"seed"`
			Violation []Violation `json:"violations"`
			Crash     string      `json:"crash"`
		}
		if json.Unmarshal(b, &rf) != nil {
			fatal2("replay file does not parse")
		}
		d.prop = rf.Prop
		f := found{seed: rf.Seed, viol: rf.Violation, crash: rf.Crash, replay: *minimiseF}
		os.MkdirAll(filepath.Join(verifDir, "replays"), 0o755)
		if p := d.confirmAndMinimise(f, false); p != "" {
			fmt.Println("minimised:", p)
		} else {
			fmt.Println("did not reproduce")
			code = 2
		}
	case *replay != "":
		code = d.replayFile(*replay)
	default:
		code = d.check(t0, *nomin)
	}
	if !*keep {
		os.RemoveAll(scratch)
	}
	os.Exit(code)
}

func envOr(k, def string) string {
	if v := os.Getenv(k); v != "" {
		return v
	}
	return def
}
func envU64(k string, def uint64) uint64 {
	if v := os.Getenv(k); v != "" {
		if n, err := strconv.ParseUint(v, 10, 64); err == nil {
			return n
		}
		if n, err := strconv.ParseInt(v, 10, 64); err == nil {
			return uint64(n)
		}
	}
	return def
}

func fatal2(format string, a ...interface{}) {
	fmt.Fprintf(os.Stderr, "MACHINERY: "+format+"\n", a...)
	os.Exit(2)
}

// ---- build --------------------------------------------------------------------------

func (d *driver) build() error {
	var lastOut []byte
	for _, skip := range []string{"", "maprange", "maprange,go", "maprange,go,rand"} {
		os.RemoveAll(filepath.Join(d.scratch, "repo"))
		cmd := exec.Command(filepath.Join(verifDir, "build.sh"), d.scratch, skip)
		cmd.Env = append(os.Environ(), "GOFLAGS=-mod=mod", "GOPROXY=off", "GOSUMDB=off", "GOTOOLCHAIN=local")
		out, err := cmd.CombinedOutput()
		if err == nil {
			d.skipUsed = skip
			d.bin = filepath.Join(d.scratch, "harness.test")
			if skip != "" {
				fmt.Printf("note: instrumented build needed -skip %s (reduced replay fidelity)\n", skip)
			}
			return nil
		}
		lastOut = out
	}
	return fmt.Errorf("instrumented build failed:\n%s", lastOut)
}

func treeID() string {
	out, _ := exec.Command("git", "-C", repoDir(), "rev-parse", "--short", "HEAD").Output()
	st, _ := exec.Command("git", "-C", repoDir(), "status", "--porcelain", "--untracked-files=no").Output()
	id := strings.TrimSpace(string(out))
	if len(bytes.TrimSpace(st)) > 0 {
		id += "+dirty"
	}
	return id
}

func repoDir() string { return envOr("VERIF_REPO", "/repo") }

// ---- workers ------------------------------------------------------------------------

type workerOut struct {
	results  []RunRes
	crashed  bool
	crashOn  uint64
	stderr   string
	watchdog bool
	lastEnd  int // number of seeds fully processed
	exit     int
}

func (d *driver) runWorker(env []string, timeout time.Duration) workerOut {
	cmd := exec.Command(d.bin, "-test.run", "^TestWorker$", "-test.timeout", "0")
	cmd.Env = append(os.Environ(), "GOLOG_LOG_LEVEL=fatal", "GOMAXPROCS=2", "SIM_PROP="+d.prop, "SIM_TIER="+d.tier, "SIM_TREE="+treeID())
	cmd.Env = append(cmd.Env, env...)
	var stderr bytes.Buffer
	cmd.Stderr = &stderr
	stdout, _ := cmd.StdoutPipe()
	var wo workerOut
	if err := cmd.Start(); err != nil {
		wo.crashed = true
		wo.stderr = err.Error()
		return wo
	}
	timer := time.AfterFunc(timeout, func() { cmd.Process.Kill() })
	defer timer.Stop()
	sc := bufio.NewScanner(stdout)
	sc.Buffer(make([]byte, 1<<20), 64<<20)
	var cur uint64
	inRun := false
	for sc.Scan() {
		line := sc.Text()
		switch {
		case strings.HasPrefix(line, "BEGIN "):
			cur, _ = strconv.ParseUint(strings.TrimSpace(line[6:]), 10, 64)
			inRun = true
		case strings.HasPrefix(line, "END "):
			rest := line[4:]
			i := strings.IndexByte(rest, ' ')
			var r RunRes
			if i > 0 && json.Unmarshal([]byte(rest[i+1:]), &r) == nil {
				wo.results = append(wo.results, r)
			}
			inRun = false
			wo.lastEnd++
		case strings.HasPrefix(line, "PAIRSET "):
			d.mu.Lock()
			for _, h := range strings.Split(line[8:], ",") {
				if h != "" {
					d.pairs[h] = true
				}
			}
			d.mu.Unlock()
		case strings.HasPrefix(line, "WATCHDOG "):
			wo.watchdog = true
		}
	}
	err := cmd.Wait()
	wo.stderr = stderr.String()
	if err != nil {
		if ee, ok := err.(*exec.ExitError); ok {
			wo.exit = ee.ExitCode()
		} else {
			wo.exit = -1
		}
	}
	if inRun {
		wo.crashed = true
		wo.crashOn = cur
	}
	return wo
}

// runBlock runs seeds [start, start+count) restarting the worker as needed.
func (d *driver) runBlock(start uint64, count int, extra []string) {
	next := start
	end := start + uint64(count)
	for next < end {
		env := append([]string{fmt.Sprintf("SIM_SEEDS=%d:%d", next, end-next), "SIM_OUT=" + d.scratch}, extra...)
		wo := d.runWorker(env, 10*time.Minute)
		for _, r := range wo.results {
			d.account(r)
		}
		next += uint64(wo.lastEnd)
		if wo.watchdog {
			// No scheduler step for the whole watchdog period. A starved machine can do
			// that to a healthy run, so the seed gets one more chance in a fresh process
			// with a longer period; only a repeated stall is reported (the goroutine dump
			// of both attempts is kept for inspection).
			seed := wo.crashOn
			if seed == 0 {
				seed = next
			}
			dump := filepath.Join(verifDir, "replays", fmt.Sprintf("stall-%s-%d.stderr.txt", d.prop, seed))
			os.MkdirAll(filepath.Dir(dump), 0o755)
			_ = os.WriteFile(dump, []byte(head(wo.stderr, 400000)), 0o644)
			env2 := append([]string{fmt.Sprintf("SIM_SEEDS=%d:1", seed), "SIM_OUT=" + d.scratch, "SIM_WATCHDOG_S=90"}, extra...)
			wo2 := d.runWorker(env2, 10*time.Minute)
			for _, r := range wo2.results {
				d.account(r)
			}
			d.mu.Lock()
			if wo2.watchdog || (wo2.lastEnd == 0 && !wo2.crashed) {
				d.stalls = append(d.stalls, fmt.Sprintf("no scheduler progress in two fresh processes during seed %d (goroutine dump: %s)", seed, dump))
			} else {
				d.stallRetried++
				os.Remove(dump)
			}
			d.mu.Unlock()
			if wo2.crashed && !wo2.watchdog {
				d.handleCrash(wo2.crashOn, wo2.stderr, extra)
			}
			next = seed + 1
			continue
		}
		if wo.crashed {
			d.handleCrash(wo.crashOn, wo.stderr, extra)
			next = wo.crashOn + 1
			continue
		}
		if wo.exit != 0 && wo.exit != 75 && wo.lastEnd == 0 {
			d.mu.Lock()
			d.machinery = append(d.machinery, fmt.Sprintf("worker exit %d without results\n%s", wo.exit, tail(wo.stderr, 2000)))
			d.mu.Unlock()
			return
		}
	}
}

func head(s string, n int) string {
	if len(s) > n {
		return s[:n]
	}
	return s
}

func tail(s string, n int) string {
	if len(s) > n {
		return s[len(s)-n:]
	}
	return s
}

var reFrame = regexp.MustCompile(`(?m)^([\w./()*\[\]\-]+)\(`)

// classifyCrash returns (signature, isLibrary).
func classifyCrash(stderr string) (string, bool) {
	i := strings.Index(stderr, "panic: ")
	j := strings.Index(stderr, "fatal error: ")
	if i < 0 || (j >= 0 && j < i) {
		i = j
	}
	if i < 0 {
		return "process died: " + strings.TrimSpace(tail(stderr, 300)), false
	}
	msg := stderr[i:]
	if k := strings.IndexByte(msg, '\n'); k > 0 {
		msg = msg[:k]
	}
	msg = regexp.MustCompile(`0x[0-9a-f]+`).ReplaceAllString(msg, "0x?")
	// first goroutine block after the panic line
	rest := stderr[i:]
	g := strings.Index(rest, "\ngoroutine ")
	if g < 0 {
		return msg, false
	}
	block := rest[g+1:]
	if e := strings.Index(block, "\n\n"); e > 0 {
		block = block[:e]
	}
	var frames []string
	for _, m := range reFrame.FindAllStringSubmatch(block, -1) {
		f := m[1]
		if strings.HasPrefix(f, "runtime.") || strings.HasPrefix(f, "panic") || strings.HasPrefix(f, "goroutine") {
			continue
		}
		if len(frames) == 0 && strings.Contains(f, "verifsim/simrt/ssync.") {
			// the lock substitute reports misuse (unlock of an unlocked mutex, negative
			// WaitGroup counter) exactly where package sync would: the culprit is its caller
			continue
		}
		frames = append(frames, f)
	}
	lib := false
	top := ""
	deliberate := strings.Contains(block, "harness.doPanic")
	for _, f := range frames {
		if top == "" {
			top = f
		}
		if strings.Contains(f, "go-jsonrpc") || strings.Contains(f, "gorilla/websocket") {
			lib = true
			if !strings.Contains(top, "go-jsonrpc") && !strings.Contains(top, "gorilla") {
				top = top + " <- " + f
			}
			break
		}
		if strings.Contains(f, "verifsim/") && !deliberate {
			break
		}
	}
	if deliberate {
		lib = true
	}
	if len(frames) > 0 && strings.Contains(frames[0], "verifsim/simrt") || len(frames) > 0 && strings.Contains(frames[0], "verifsim/simnet") {
		lib = false
	}
	return msg + " @ " + top, lib
}

func (d *driver) handleCrash(seed uint64, stderr string, extra []string) {
	sig, lib := classifyCrash(stderr)
	d.mu.Lock()
	d.crashes++
	d.mu.Unlock()
	if !lib {
		d.mu.Lock()
		d.machinery = append(d.machinery, fmt.Sprintf("worker crashed outside library code during seed %d: %s\n%s", seed, sig, tail(stderr, 3000)))
		d.mu.Unlock()
		return
	}
	// re-run alone in record mode to obtain plan + decision trace
	dump := filepath.Join(d.scratch, fmt.Sprintf("crash-%d.json", seed))
	trace := filepath.Join(d.scratch, fmt.Sprintf("crash-%d.trace", seed))
	env := append([]string{fmt.Sprintf("SIM_SEEDS=%d:1", seed), "SIM_DUMP=" + dump, "SIM_TRACE=" + trace}, extra...)
	wo := d.runWorker(env, 2*time.Minute)
	f := found{seed: seed, crash: sig}
	if wo.crashed {
		sig2, _ := classifyCrash(wo.stderr)
		if sig2 != sig {
			f.crash = sig + " (re-run: " + sig2 + ")"
		}
		f.replay = d.assembleCrashReplay(seed, dump, trace, f.crash, wo.stderr)
	} else {
		// the process died in library code, but not when this seed runs alone in a
		// fresh process: state carried between runs of one process (a package-level
		// variable in the library?). Reported as a warning if other violations are
		// confirmed, as machinery trouble otherwise.
		d.mu.Lock()
		d.unrepro = append(d.unrepro, fmt.Sprintf("crash during seed %d (%s) did not reproduce when re-run alone (state shared between runs of one process?)", seed, sig))
		d.mu.Unlock()
		return
	}
	d.mu.Lock()
	d.verdicts["violation"]++
	d.results++
	d.founds = append(d.founds, f)
	d.mu.Unlock()
}

func (d *driver) assembleCrashReplay(seed uint64, dump, trace, sig, stderr string) string {
	b, err := os.ReadFile(dump)
	if err != nil {
		return ""
	}
	var rf map[string]interface{}
	if json.Unmarshal(b, &rf) != nil {
		return ""
	}
	var decisions []string
	if tb, err := os.ReadFile(trace); err == nil {
		for _, line := range strings.Split(string(tb), "\n") {
			// "<n> t=<d> pick <key> of <k>"
			if i := strings.Index(line, " pick "); i >= 0 {
				rest := line[i+6:]
				if j := strings.LastIndex(rest, " of "); j >= 0 {
					decisions = append(decisions, rest[:j])
				}
			}
		}
	}
	rf["decisions"] = decisions
	rf["crash"] = sig
	rf["tree"] = treeID()
	rf["note"] = "process crash; stderr tail: " + tail(stderr, 1500)
	out, _ := json.Marshal(rf)
	path := filepath.Join(d.scratch, fmt.Sprintf("%s-%d-crash.json", d.prop, seed))
	if os.WriteFile(path, out, 0o644) != nil {
		return ""
	}
	return path
}

func (d *driver) account(r RunRes) {
	d.mu.Lock()
	defer d.mu.Unlock()
	d.results++
	d.verdicts[r.Verdict]++
	d.steps += int64(r.Steps)
	d.ticks += int64(r.Ticks)
	d.fakeNs += r.FakeNs
	d.preempt += int64(r.Preempt)
	d.anon += int64(r.Anon)
	d.wallUs += r.WallUs
	if r.Leftover != 0 {
		d.leftover++
	}
	for k, v := range r.Fired {
		d.fired[k] += v
	}
	for k, v := range r.Probes {
		d.probes[k] += v
	}
	for k, v := range r.Parks {
		d.parks[k] += v
	}
	d.families[r.Family]++
	d.policies[r.Policy]++
	d.hashes[r.Hash] = true
	if r.Nontrivial {
		d.ntHashes[r.Hash] = true
	}
	if len(r.Sample) > 0 && string(r.Sample) != "null" && len(d.samples) < 3 {
		d.samples = append(d.samples, r.Sample)
	}
	switch r.Verdict {
	case "violation":
		d.founds = append(d.founds, found{seed: r.Seed, variant: r.Variant, viol: r.Violations, replay: r.ReplayPath})
	case "machinery":
		d.machinery = append(d.machinery, fmt.Sprintf("seed %d: %s", r.Seed, r.Aborted))
	}
}

// ---- the check --------------------------------------------------------------------------

func (d *driver) check(t0 time.Time, nomin bool) int {
	deadline := time.Now().Add(d.budget)
	var wg sync.WaitGroup
	var nextMu sync.Mutex
	// seeds of one invocation: base*1e9 + i
	next := d.seed * 1_000_000_000
	block := 25
	extra := []string{}
	if d.tier == "thorough" {
		extra = append(extra, fmt.Sprintf("SIM_VARIANT_BASE=%d", d.seed*1_000_000_000))
	}
	maxRuns := int(envU64("VERIF_MAX_RUNS", 0))
	for w := 0; w < d.workers; w++ {
		wg.Add(1)
		go func() {
			defer wg.Done()
			for time.Now().Before(deadline) {
				nextMu.Lock()
				s := next
				next += uint64(block)
				nextMu.Unlock()
				if maxRuns > 0 && int(s-d.seed*1_000_000_000) >= maxRuns {
					return
				}
				d.runBlock(s, block, extra)
				d.mu.Lock()
				stop := len(d.founds) >= 8 || len(d.machinery) >= 5 || len(d.stalls) >= 3
				d.mu.Unlock()
				if stop {
					return
				}
			}
		}()
	}
	wg.Wait()
	return d.finish(t0, nomin)
}

func loadFindings() []Finding {
	b, err := os.ReadFile(filepath.Join(verifDir, "known_findings.json"))
	if err != nil {
		return nil
	}
	var fs []Finding
	if json.Unmarshal(b, &fs) != nil {
		fatal2("known_findings.json does not parse")
	}
	return fs
}

func (f Finding) matches(prop string, v Violation) bool {
	if f.Property != prop || f.Status != "known" {
		return false
	}
	if f.Oracle != "" && !strings.HasPrefix(v.Oracle, f.Oracle) {
		return false
	}
	if f.Match == "" {
		return true
	}
	re, err := regexp.Compile(f.Match)
	return err == nil && re.MatchString(v.Detail)
}

func (d *driver) finish(t0 time.Time, nomin bool) int {
	findings := loadFindings()
	code := 0
	// machinery trouble dominates: nothing it reports is to be believed
	total := d.results
	inconcl := d.verdicts["inconclusive"]
	if len(d.machinery) > 0 {
		for i, m := range d.machinery {
			if i < 5 {
				fmt.Fprintf(os.Stderr, "MACHINERY: %s\n", m)
			}
		}
		code = 2
	}
	tooManyInconclusive := ""
	if total == 0 {
		fmt.Fprintln(os.Stderr, "MACHINERY: no runs completed")
		code = 2
	} else if inconcl*50 > total {
		// runs cut short by the step / fake-time cap. On a tree that breaks the
		// property (a client that flaps for ever) this is common; it is only fatal
		// when nothing was confirmed - see below
		tooManyInconclusive = fmt.Sprintf("%d of %d runs inconclusive (> 2%%)", inconcl, total)
	}

	knownHit := map[string]int{}
	type rep struct {
		f    found
		sig  string
		path string
	}
	var reports []rep
	seenSig := map[string]bool{}
	sort.Slice(d.founds, func(i, j int) bool { return d.founds[i].seed < d.founds[j].seed })
	for _, f := range d.founds {
		var vs []Violation
		if f.crash != "" {
			vs = []Violation{{Oracle: "crash", Detail: f.crash}}
		} else {
			vs = f.viol
		}
		unlisted := false
		var sig string
		for _, v := range vs {
			hit := false
			for _, kf := range findings {
				if kf.matches(d.prop, v) {
					knownHit[kf.What]++
					hit = true
					break
				}
			}
			if !hit {
				unlisted = true
				if sig == "" {
					sig = v.Oracle + ": " + v.Detail
				}
			}
		}
		if !unlisted {
			continue
		}
		osig := vs[0].Oracle
		if seenSig[osig] && len(reports) >= 3 {
			continue
		}
		seenSig[osig] = true
		reports = append(reports, rep{f: f, sig: sig})
	}
	var kk []string
	for k := range knownHit {
		kk = append(kk, k)
	}
	sort.Strings(kk)
	for _, k := range kk {
		fmt.Printf("KNOWN-FINDING: property=%s %s (met in %d runs)\n", d.prop, k, knownHit[k])
	}
	nviol := 0
	unconfirmed := append([]string(nil), d.unrepro...)
	// a run that made no progress in real time, twice: trouble of the machinery or
	// of the machine, not a verdict on the property - but it does not undo
	// violations that were confirmed by replay in the same batch
	unconfirmed = append(unconfirmed, d.stalls...)
	if tooManyInconclusive != "" {
		unconfirmed = append(unconfirmed, tooManyInconclusive)
	}
	if code != 2 {
		os.MkdirAll(filepath.Join(verifDir, "replays"), 0o755)
		for i, r := range reports {
			if i >= 3 {
				break
			}
			path := d.confirmAndMinimise(r.f, nomin)
			if path == "" {
				unconfirmed = append(unconfirmed, fmt.Sprintf("violation at seed %d did not reproduce from its replay file: %s", r.f.seed, r.sig))
				continue
			}
			fmt.Printf("VIOLATION property=%s replay=%s\n", d.prop, path)
			fmt.Printf("  seed=%d %s\n", r.f.seed, trunc(r.sig, 600))
			nviol++
			if code == 0 {
				code = 1
			}
		}
	}
	// a violation that cannot be replayed is machinery trouble - unless other
	// violations of this run were confirmed, in which case it is only a warning
	for _, u := range unconfirmed {
		if nviol == 0 {
			fmt.Fprintf(os.Stderr, "MACHINERY: %s\n", u)
			code = 2
		} else {
			fmt.Fprintf(os.Stderr, "warning: %s\n", u)
		}
	}
	d.writeEvidence(t0, nviol, kk)
	fmt.Printf("%s %s: runs=%d ok=%d violation=%d inconclusive=%d crashes=%d steps=%d fake=%s distinct_traces=%d pairs=%d wall=%.1fs exit=%d\n",
		d.prop, d.tier, d.results, d.verdicts["ok"], d.verdicts["violation"], inconcl, d.crashes, d.steps,
		time.Duration(d.fakeNs).Round(time.Second), len(d.hashes), len(d.pairs), time.Since(t0).Seconds(), code)
	return code
}

func trunc(s string, n int) string {
	if len(s) > n {
		return s[:n] + "…"
	}
	return s
}

// confirmAndMinimise replays the violation in a fresh process (strict follow
// of the recorded decisions), minimises the plan and the schedule, and stores
// the final replay file under /verif/replays. Returns "" if it does not reproduce.
func (d *driver) confirmAndMinimise(f found, nomin bool) string {
	if f.replay == "" {
		return ""
	}
	want := ""
	if f.crash != "" {
		want = "crash"
	} else if len(f.viol) > 0 {
		want = f.viol[0].Oracle
	}
	ok, _ := d.replayOnce(f.replay, want, false)
	if !ok {
		// second chance (HTTP-path runs may diverge inside net/http): lenient
		ok, _ = d.replayOnce(f.replay, want, true)
		if !ok {
			return ""
		}
	}
	best := f.replay
	if !nomin {
		best = d.minimise(f.replay, want)
	}
	dst := filepath.Join(verifDir, "replays", fmt.Sprintf("%s-%d.json", d.prop, f.seed))
	b, err := os.ReadFile(best)
	if err != nil {
		return ""
	}
	if os.WriteFile(dst, b, 0o644) != nil {
		return ""
	}
	// final confirmation of the stored file, twice, in fresh processes
	for i := 0; i < 2; i++ {
		if ok, _ := d.replayOnce(dst, want, true); !ok {
			// fall back to the unminimised one
			b, _ := os.ReadFile(f.replay)
			os.WriteFile(dst, b, 0o644)
			break
		}
	}
	return dst
}

// replayOnce returns whether the same oracle (or a crash) fails again, plus the
// path of the re-recorded replay (full decision trace of this execution).
func (d *driver) replayOnce(path, wantOracle string, lenient bool) (bool, string) {
	env := []string{"SIM_REPLAY=" + path, "SIM_OUT=" + d.scratch, "SIM_TAG=-re" + strconv.FormatInt(time.Now().UnixNano()%1e9, 10)}
	if lenient {
		env = append(env, "SIM_LENIENT=1")
	}
	if wantOracle == "crash" {
		trace := path + ".trace"
		env = append(env, "SIM_TRACE="+trace)
		wo := d.runWorker(env, 2*time.Minute)
		if !wo.crashed {
			return false, ""
		}
		_, lib := classifyCrash(wo.stderr)
		return lib, path
	}
	wo := d.runWorker(env, 2*time.Minute)
	if len(wo.results) != 1 {
		return false, ""
	}
	r := wo.results[0]
	if r.Verdict != "violation" {
		return false, ""
	}
	for _, v := range r.Violations {
		if v.Oracle == wantOracle {
			return true, r.ReplayPath
		}
	}
	return false, ""
}

func (d *driver) replayFile(path string) int {
	b, err := os.ReadFile(path)
	if err != nil {
		fatal2("%v", err)
	}
	var rf struct {
		Prop      string      `json:"property"`
		Violation []Violation `json:"violations"`
		Crash     string      `json:"crash"`
	}
	if json.Unmarshal(b, &rf) != nil {
		fatal2("replay file does not parse")
	}
	d.prop = rf.Prop
	want := "crash"
	if rf.Crash == "" {
		if len(rf.Violation) == 0 {
			fatal2("replay file records no violation")
		}
		want = rf.Violation[0].Oracle
	}
	ok, _ := d.replayOnce(path, want, false)
	if !ok {
		ok, _ = d.replayOnce(path, want, true)
	}
	if ok {
		fmt.Printf("VIOLATION property=%s replay=%s\n  reproduced: %s\n", d.prop, path, want)
		return 1
	}
	fmt.Printf("replay of %s did not reproduce %s on this tree\n", path, want)
	return 0
}
