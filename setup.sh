#!/bin/bash
# Builds the framework from files on disk only (offline) and warms the build cache.
set -e
cd "$(dirname "$0")"
export GOFLAGS=-mod=mod GOPROXY=off GOSUMDB=off GOTOOLCHAIN=local
GO=go1.26.8
mkdir -p bin evidence replays
$GO build -o bin/instrument ./tools/instrument
$GO build -o bin/check ./cmd/check
# warm: instrumented build of the harness against /repo (discarded)
SCR=$(mktemp -d /tmp/verifsim-setup-XXXXXX)
trap 'rm -rf "$SCR"' EXIT
./build.sh "$SCR" >/dev/null
echo "setup ok"
