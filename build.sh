#!/bin/bash
# build.sh <scratchdir> [skip-list] : copy /repo's working tree, instrument it, build harness test binary into <scratchdir>/harness.test
set -e
export GOFLAGS=-mod=mod GOPROXY=off GOSUMDB=off GOTOOLCHAIN=local
GO=go1.26.8
SCR=$1
SKIP=${2:-}
REPO=${VERIF_REPO:-/repo}
VERIF=$(cd "$(dirname "$0")" && pwd)
mkdir -p "$SCR/repo"
cd "$REPO"
cp go.mod go.sum "$SCR/repo/"
find . -name '*.go' ! -name '*_test.go' ! -path './.git/*' | while read f; do mkdir -p "$SCR/repo/$(dirname $f)"; cp "$f" "$SCR/repo/$f"; done
cd "$SCR/repo"
DIRS=$(find . -name '*.go' -exec dirname {} \; | sort -u)
[ -x "$VERIF/bin/instrument" ] || (cd "$VERIF" && $GO build -o bin/instrument ./tools/instrument)
"$VERIF/bin/instrument" -skip "$SKIP" $DIRS
cat >> go.mod <<EOT

require verifsim v0.0.0
replace verifsim => $VERIF
EOT
cd "$VERIF"
cp go.mod "$SCR/harness.mod"
cat >> "$SCR/harness.mod" <<EOT

replace github.com/filecoin-project/go-jsonrpc => $SCR/repo
EOT
cat "$REPO/go.sum" > "$SCR/harness.sum"
[ -f "$VERIF/go.sum" ] && cat "$VERIF/go.sum" >> "$SCR/harness.sum"
$GO test -c -modfile="$SCR/harness.mod" -o "$SCR/harness.test" ./harness
