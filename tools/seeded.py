#!/usr/bin/env python3
"""Evaluate a seeded breakage (deliberate property-breaking change) against the checks.

  seeded.py <srcdir> <name> <prop> [<prop> ...]

<srcdir> holds patch.diff, demo_test.go (and README.md) as produced by a sub-agent.
Steps, all in a scratch worktree of /repo outside /repo and /verif:
  1. apply the patch, `go build ./...`, run the repository test-suite (must pass);
  2. copy the demo into its package, run it: must FAIL with the patch, PASS without;
  3. run `./check <prop> --tier quick` for every listed property with VERIF_REPO
     pointing at the patched worktree (equivalent to `git -C /repo apply`, but /repo stays
     untouched); record exit codes and VIOLATION lines;
  4. write /verif/seeded/<name>/{patch.diff, demo_test.go, README.agent.md, meta.json}
     and remove the worktree.
"""
import json, os, re, shutil, subprocess, sys, time

ENV = dict(os.environ, GOFLAGS="-mod=mod", GOPROXY="off", GOSUMDB="off")
VERIF = os.path.dirname(os.path.dirname(os.path.abspath(__file__)))


def run(cmd, cwd=None, timeout=900, env=None):
    p = subprocess.run(cmd, cwd=cwd, shell=isinstance(cmd, str), stdout=subprocess.PIPE, stderr=subprocess.STDOUT,
                       timeout=timeout, env=env or ENV, text=True)
    return p.returncode, p.stdout


def main():
    src, name, props = sys.argv[1], sys.argv[2], sys.argv[3:]
    wt = f"/tmp/ev/{name}"
    shutil.rmtree(wt, ignore_errors=True)
    os.makedirs("/tmp/ev", exist_ok=True)
    run(["git", "-C", "/repo", "worktree", "prune"])
    rc, out = run(["git", "-C", "/repo", "worktree", "add", "-q", "--detach", wt, "HEAD"])
    if rc != 0:
        print("worktree failed", out)
        sys.exit(2)
    meta = {"name": name, "properties": props, "source": src, "base_commit": run(["git", "-C", "/repo", "rev-parse", "--short", "HEAD"])[1].strip()}
    try:
        patch = os.path.join(src, "patch.diff")
        rc, out = run(["git", "apply", "--whitespace=nowarn", patch], cwd=wt)
        if rc != 0:
            # written against an earlier /repo HEAD (before a later fix: commit moved the context)
            rc, out2 = run(["patch", "-p1", "-F3", "--no-backup-if-mismatch", "-i", patch], cwd=wt)
            out += out2
            meta["applied_with_fuzz"] = rc == 0
            run("find . -name '*.orig' -delete; find . -name '*.rej' -delete", cwd=wt)
        meta["applies"] = rc == 0
        if rc != 0:
            meta["apply_error"] = out[-600:]
            return finish(meta, src, name, wt)
        rc, out = run("go build ./...", cwd=wt)
        meta["builds"] = rc == 0
        if rc != 0:
            meta["build_error"] = out[-600:]
            return finish(meta, src, name, wt)
        prev = {}
        pm = os.path.join(VERIF, "seeded", name, "meta.json")
        checks_only = bool(os.environ.get("SEEDED_CHECKS_ONLY")) and os.path.exists(pm)
        if checks_only:
            # re-evaluation on a newer harness: the change itself was validated before
            prev = json.load(open(pm))
            for k in ("suite_passes_with_change", "demo_fails_with_change", "demo_passes_without_change", "change", "needs", "history"):
                if k in prev:
                    meta[k] = prev[k]
            meta["validated_at_base_commit"] = prev.get("validated_at_base_commit", prev.get("base_commit"))
        else:
            rc, out = run("go test -count=1 -timeout 20m ./...", cwd=wt)
            meta["suite_passes_with_change"] = rc == 0
            if rc != 0:
                meta["suite_output"] = out[-800:]
        # demo
        demo = os.path.join(src, "demo_test.go")
        if os.path.exists(demo) and not checks_only:
            txt = open(demo).read()
            pkgdir = "httpio" if re.search(r"^package httpio", txt, re.M) else "."
            tests = re.findall(r"^func (Test\w+)\(", txt, re.M)
            dst = os.path.join(wt, pkgdir, "zz_seeded_demo_test.go")
            shutil.copy(demo, dst)
            pat = "^(" + "|".join(tests) + ")$"
            fails = 0
            for _ in range(3):
                rc, out = run(["go", "test", "-count=1", "-timeout", "5m", "-run", pat, "./" + pkgdir], cwd=wt)
                fails += rc != 0
            meta["demo_fails_with_change"] = f"{fails}/3"
            run("git diff > /tmp/ev/%s.applied.diff; git checkout -- ." % name, cwd=wt)
            passes = 0
            for _ in range(3):
                rc, out = run(["go", "test", "-count=1", "-timeout", "5m", "-run", pat, "./" + pkgdir], cwd=wt)
                passes += rc == 0
            meta["demo_passes_without_change"] = f"{passes}/3"
            os.remove(dst)
            run(["git", "apply", "--whitespace=nowarn", "/tmp/ev/%s.applied.diff" % name], cwd=wt)
            os.remove("/tmp/ev/%s.applied.diff" % name)
        # checks
        meta["checks"] = {}
        for prop in props:
            t0 = time.time()
            env = dict(ENV, VERIF_REPO=wt)
            tier = os.environ.get("SEEDED_TIER", "quick")
            rc, out = run([os.path.join(VERIF, "check"), prop, "--tier", tier] + (["--budget", os.environ["SEEDED_BUDGET"]] if os.environ.get("SEEDED_BUDGET") else []), cwd=VERIF, timeout=3600, env=env)
            meta.setdefault("tier", tier)
            viol = [l.strip() for l in out.splitlines() if l.startswith("VIOLATION") or l.startswith("  seed=")]
            mach = [l.strip() for l in out.splitlines() if l.startswith("MACHINERY")]
            summ = [l for l in out.splitlines() if re.match(r"^C\d+ (quick|thorough):", l)]
            meta["checks"][prop] = {"exit": rc, "violations": [v[:400] for v in viol[:6]], "machinery": [m[:300] for m in mach[:3]],
                                    "summary": summ[-1] if summ else "", "wall_s": round(time.time() - t0, 1)}
            # the replay files belong to the patched tree: do not keep them in /verif/replays
            for f in os.listdir(os.path.join(VERIF, "replays")):
                if f.startswith(prop + "-"):
                    os.remove(os.path.join(VERIF, "replays", f))
        meta["caught_by"] = [p for p, r in meta["checks"].items() if r["exit"] == 1]
    finally:
        pass
    finish(meta, src, name, wt)


def finish(meta, src, name, wt):
    dst = os.path.join(VERIF, "seeded", name)
    os.makedirs(dst, exist_ok=True)
    for f, t in (("patch.diff", "patch.diff"), ("demo_test.go", "demo_test.go"), ("README.md", "README.agent.md")):
        if os.path.exists(os.path.join(src, f)):
            shutil.copy(os.path.join(src, f), os.path.join(dst, t))
    json.dump(meta, open(os.path.join(dst, "meta.json"), "w"), indent=1)
    run(["git", "-C", "/repo", "worktree", "remove", "--force", wt])
    shutil.rmtree(wt, ignore_errors=True)
    print(json.dumps({k: meta.get(k) for k in ("name", "applies", "builds", "suite_passes_with_change", "demo_fails_with_change", "demo_passes_without_change", "caught_by")}))
    for p, r in meta.get("checks", {}).items():
        print(" ", p, "exit", r["exit"], r["summary"][:160])
        for v in r["violations"][:2]:
            print("     ", v[:260])
        for m in r["machinery"][:1]:
            print("     ", m[:260])


main()
