#!/usr/bin/env python3
"""Adds the hand-written 'change' / 'needs' / 'history' notes to /verif/seeded/*/meta.json and
prints the table used in DESIGN.md section 11."""
import json, glob, os

D = os.path.dirname(os.path.dirname(os.path.abspath(__file__)))

# name: (what the change is, what it needs to manifest, note on how the checks came to catch it)
N = {
 "sa1-C02-m1": ("per-call delivery channel loses its 1-slot buffer", "a call cancelled in flight whose response arrives before the main loop accepted its xrpc.cancel, with another call queued ahead", ""),
 "sa1-C02-m2": ("request id counter per method instead of per client", "two different methods in flight on one ws client with equal per-method call counts", ""),
 "sa1-C03-m1": ("incomingErr cleared at the start of tryReconnect instead of after the redial", "a call with an id issued inside the reconnect window", ""),
 "sa1-C03-m2": ("read deadline re-armed by the client's own outgoing requests", "black hole + a steady stream of further calls spaced closer than the timeout", "caught by C17 (bounded detection), not by C03: with finitely many calls everything still returns eventually; C17 got a 'calls keep coming during the black hole' task for it"),
 "sa1-C04-m1": ("write failure answered with Error:nil (shadowed variable) and dropped from inflight", "the frame write fails while incomingErr is still nil (reset seen by the writer first)", ""),
 "sa1-C04-m2": ("Idempotency-Key header on HTTP requests makes net/http replay POSTs", "keep-alive HTTP client, an earlier completed request on the connection, EOF/RST after the server processed the request and before any response byte", "needed a new C04 family: sequential chain on a keep-alive http client + connection cut while a handler is held"),
 "sa1-C05-m1": ("retry wait selects on ctx.Done() of a nil context", "a retry-tagged method without a context parameter + an outage", "needed context-less proxy methods (CallRetryNoCtx) in the fault family"),
 "sa1-C05-m2": ("incomingErr not set on the readError path (the defect fixed by 5e6fc01)", "connection cut inside a frame + call during the outage", ""),
 "sa1-C06-m1": ("subscription cancel sent with the channel id instead of the request id", "request ids and channel ids have diverged on the connection", ""),
 "sa1-C06-m2": ("cancel func registered from the handler goroutine, not the frame executor", "xrpc.cancel right behind its request", ""),
 "sa1-C07-m1": ("caseToID deleted order-preservingly while cases is swap-removed", ">= 3 concurrent subscriptions, one that is neither newest nor second newest ends", ""),
 "sa1-C07-m2": ("client buffering goroutine stops draining after 8192 parked values", "a stalled subscriber with > 8192+32 pending values, then any other traffic", "caught in the thorough tier only (rare 1500 / 9000-value streams were added there)"),
 "sa1-C08-m1": ("same caseToID / cases desync", ">= 3 subscriptions, an older one closes", ""),
 "sa1-C08-m2": ("closeChans moved out of tryReconnect into only one of its two call sites", "connection cut in the middle of a frame with an open subscription", ""),
 "sa1-C10-m1": ("channel-result path of handleResponse no longer deletes the inflight entry", "a peer repeating a successful channel response >= 3 times", "needed the hostile server to answer subscriptions and to replay its last genuine response"),
 "sa1-C10-m2": ("size limit checked after whitespace trimming", "an oversize body whose excess is leading/trailing whitespace", ""),
 "sa1-C13-m1": ("recover() formats only error/string/Stringer payloads, no default branch", "panic with a custom-typed value", ""),
 "sa1-C13-m2": ("panic error reply skipped when the call's ctx is already done", "caller cancels first, handler panics afterwards", "needed cancel-then-panic ops in C13"),
 "sa1-C14-m1": ("notification / cancel branch of the main loop writes without writeLk", "a queued cancel or notify overlapping another writer", ""),
 "sa1-C14-m2": ("encoded bytes returned to a process-wide sync.Pool before being written", "writer held between marshal and write while another sendRequest reuses the buffer", ""),
 "sa1-C15-m1": ("handler context derived with context.WithoutCancel", "a notification handler running when the connection ends", ""),
 "sa1-C15-m2": ("handleChanOut selects on c.stop (nil on servers) instead of c.exiting", "a streaming handler that returns its channel after the connection ended", "needed gated subscription handlers in C15"),
 "sa1-C16-m1": ("reverse client state hoisted out of the per-connection builder", ">= 2 connected clients", ""),
 "sa1-C16-m2": ("request dropped from inflight on send failure without answering", "the write fails while the loop is still running, then the client goes away", "first evaluation ended in exit 2: a confirmed violation next to one that did not replay - the replay bug (tick durations drawn from the policy stream) was fixed"),
 "sa1-C17-m1": ("setupPings called before the new connection is installed", "one reconnect, then an idle gap or call >= timeout", "caught by C05 (new post-heal stability oracle); C17 then got a healthy-after-reconnect family"),
 "sa1-C17-m2": ("blocking timer drain (if !Stop() { <-C })", "one full timeout without any main-loop event (black hole)", ""),
 "sa1-C18-m1": ("cancel forwarding is a plain send, without the exiting alternative", "the call's ctx cancelled after the loop took <-stop and before exiting is closed", "needed ctx-cancelling calls in C18"),
 "sa1-C18-m2": ("redial loop bound to the application's outer context", "close inside the reconnect window with failing redials", ""),
 "sa1-C20-m1": ("sticky EOF recorded only when the failing read returned no bytes", "read past EOF after the upload handler returned", "first evaluation: found but not replayable (race inside net/http); the handler now yields after EOF, which makes it deterministic"),
 "sa1-C20-m2": ("upload URL parsed once and shared by all calls", "two reader params encoded at nearly the same time", "needed the start of a goroutine to be a scheduling point"),
 "sb2-C02-m1": ("handler argument slice pre-built with spare capacity, shared by concurrent invocations", "two calls of one method interleaving inside handle's parameter loop", "out of reach of lock/select/IO-level scheduling; caught after statement-level scheduling was added"),
 "sb2-C02-m2": ("closeInFlight / closeChans moved to one call site of tryReconnect only", "connection cut inside a frame with calls in flight", "caught by C03 (faults), not C02 (healthy network)"),
 "sb2-C03-m1": ("request dropped from inflight on write failure, never answered", "write side fails before the reader reports", ""),
 "sb2-C03-m2": ("client.exiting wired to the user's stop channel", "no-reconnect client, fault, then a call", ""),
 "sb2-C04-m1": ("pooled ws read buffer released while large frames are still queued", "concurrent > 4 KiB frames", "patch rebased by hand onto the connGen fix"),
 "sb2-C04-m2": ("retry loop bound off by one: untagged calls re-sent once", "cut after the server received the request, reconnect within the 100-200 ms method back-off", ""),
 "sb2-C05-m1": ("setupPings before the lock in the redial goroutine", "reconnect, then a quiet spell >= timeout", "patch rebased by hand"),
 "sb2-C05-m2": ("inflight map not reset in closeInFlight", "call in flight at outage 1, then two more outages", "needed multi-outage fault plans (fault on the k-th next connection)"),
 "sb2-C06-m1": ("caseToReq slice drifts: stream end cancels another subscription's context", "open X, open A, X ends, open C, C ends", "needed staggered subscription starts in C06"),
 "sb2-C06-m2": ("xrpc.cancel not sent for in-flight channel-returning calls", "handler that returns its channel late, cancel before the response", "needed gated (held) subscription handlers in C06"),
 "sb2-C07-m1": ("chanCtr load / store instead of atomic add", ">= 2 channel-returning calls whose handlers return concurrently", ""),
 "sb2-C07-m2": ("marshal error in the forwarder returns instead of continuing", "one element encoding/json refuses (NaN)", "needed float streams with one NaN element"),
 "sb2-C08-m1": ("close check of the client buffering goroutine only in the close branch", "termination reaches the client while values are still buffered", ""),
 "sb2-C08-m2": ("chanCtr check-then-act", "concurrent subscriptions", ""),
 "sb2-C10-m1": ("typed-nil reverse handler defeats the nil guard", "server sends a request frame to a client without handlers", ""),
 "sb2-C10-m2": ("pooled HTTP body buffer not reset on refusal paths", "a refused body followed by another request on the same pooled buffer", "needed a small valid request after each body around the limit"),
 "sb2-C13-m1": ("log-once throttle returns before err is set on a repeated panic", "the same method panics a second time in the process", "first evaluation ended in exit 2 (crashes that do not reproduce alone because the state is process-global); now a warning when other violations are confirmed"),
 "sb2-C13-m2": ("error replies encoded into one package-level buffer", "two panic replies on different connections overlapping in time", "out of reach until statement-level scheduling"),
 "sb2-C14-m1": ("closer polls TryLock for 1 s, then writes the close frame without the lock", "a client-side writer holding writeLk > 1 s when the closer is called", "needed multi-second write stalls in C14"),
 "sb2-C14-m2": ("ping writer sets a write deadline that stays on the connection", "a later large write stalled beyond 2 ping intervals", "needed partial writes under a write stall and the 'alive connection ends inside a frame' oracle"),
 "sb2-C15-m1": ("cancelCtx early return leaves handlingLk locked", "an xrpc.cancel for a finished call, then the connection ends with handlers running", "needed late cancels in C15"),
 "sb2-C15-m2": ("close frame written under writeLk on server context cancel", "server context cancel while a response write is blocked by a peer that does not read", "needed the write-stall fault in C15"),
 "sb2-C16-m1": ("notifications dispatched inline on the frame executor", "a notification handler that makes a reverse call", "needed notifyrev ops"),
 "sb2-C16-m2": ("duplicate-id guard + handling map not reset on reconnect", "connection lost while a client-side reverse handler runs, same-id reverse call after the reconnect", "patch rebased by hand"),
 "sb2-C17-m1": ("read deadline reset at the top of the main loop", "black hole while the application keeps calling", ""),
 "sb2-C17-m2": ("ping/pong handlers installed even when own pings are disabled", "server pings off, client with pings + timeout, gap > timeout", ""),
 "sb2-C18-m1": ("inflight map not reset in closeInFlight", "call in flight at drop 1, reconnect, drop 2, reconnect, close", "needed second / third drops before the close in C18"),
 "sb2-C18-m2": ("buffering goroutine's termination test not re-evaluated after the buffer drains", "close while a subscription holds unread values", ""),
 "sb2-C20-m1": ("rendezvous lookup under RLock, insert under Lock without re-check", "upload and RPC request reaching the server inside that gap", ""),
 "sb2-C20-m2": ("upload client with a 10 s overall timeout", "payload larger than the socket buffers + a consumer slower than 10 s", "needed TCP flow control on HTTP connections and slow consumers"),
 "sc3-C02-m1": ("cancel notification built as a copy of the call's request, sharing its ready channel", "a ctx-taking ws call cancelled in flight", "caught by C06 after the 'a cancelled call still gets its own response' oracle was added"),
 "sc3-C02-m2": ("incomingErr cleared at the start of the reconnect", "call begun inside the reconnect window", "caught by C03"),
 "sc3-C03-m1": ("writeLk not released on the fail-fast branch", "a call with an id inside the reconnect window, then anything", ""),
 "sc3-C03-m2": ("no read deadline when the client's own pings are off", "client with pings disabled + black hole", "needed a pings-disabled client variant in C03"),
 "sc3-C05-m1": ("first redial of every outage skips the back-off", "flapping outage: redial succeeds, the fresh connection is cut again at once", "the spacing oracle no longer exempts the dial after a successful one"),
 "sc3-C05-m2": ("writeLk leaked on the fail-fast branch", "call with an id while redialling", ""),
 "sc3-C06-m1": ("one waiting goroutine per context: only the first subscription of a shared context is cancelled", ">= 2 subscriptions opened with the same cancellable context", "needed shared-context subscription groups"),
 "sc3-C06-m2": ("handlingLk held across the response write", "a cancel arriving while another call's large response is stuck in a stalled server->client direction", "needed a client-read-stall variant of C06 (keepalive off)"),
 "sc3-C07-m1": ("forwarder keeps draining one ready channel with TryRecv", "a handler returning a large pre-filled buffered channel", "NOT caught, by design: order, content and independence of every stream are unchanged; only the time at which the other streams are served moves, and no fake time passes inside a burst (a fairness / latency regression, not a violation of C07 as stated)"),
 "sc3-C07-m2": ("chanCtr reset to 0 on reconnect", "reverse-direction streams, an old producer that emits after the reconnect, a new subscription on the new connection", "needed reverse subscriptions (server subscribes to the client) in C16; caught there"),
 "sc3-C08-m1": ("the two cleanup defers swapped back (closeChans before closeInFlight)", "final teardown while a channel-id response is queued", ""),
 "sc3-C08-m2": ("inflightLk released early in handleResponse again", "connection loss exactly while the executor is between lookup and sink registration", "caught in the thorough tier (6 of 9 900 runs)"),
 "sc3-C14-m1": ("stale-generation check after NextWriter: an opened writer is never closed", "reverse call finishing after a reconnect + any later write", "caught by C16 once it also checks wire well-formedness"),
 "sc3-C14-m2": ("ping handler replies with WriteMessage from the read goroutine", "peer's ping processed while a message is open", ""),
 "sc3-C15-m1": ("readError loses its 1-slot buffer", "server context cancel while a message is partly received", "needed a large request in transit at the end of the connection"),
 "sc3-C15-m2": ("nextWriterGen returns early once exiting is closed, without the callback", "handler returning after teardown", ""),
 "sc3-C16-m1": ("connection generation sampled once by the frame executor", "reverse call after the client's first reconnect", ""),
 "sc3-C16-m2": ("closeInFlight halves swapped + cancel hand-off without the exiting escape", "ctx-carrying reverse call pending when the connection is lost", ""),
 "sc3-C18-m1": ("handleResponse drops inflightLk before registering the sink", "close coinciding with the handling of a channel-id response", ""),
 "sc3-C18-m2": ("writeLk not released on the fail-fast branch", "connection cut, a call in the reconnect window, then close", ""),
 "sd4-C04-m1": ("retry tag read with Tag.Lookup: retry:\"false\" turns retrying on", "a field tagged retry:\"false\", connection cut after the request was written, reconnect", "needed a retry:\"false\" proxy method in the fault family"),
 "sd4-C04-m2": ("'carry unwritten requests over a reconnect' feature marks every in-flight request unwritten", "connection cut between request write and response, reconnect", ""),
 "sd4-C10-m1": ("cancelCtx returns without unlocking handlingLk when the id is not being handled", "an xrpc.cancel for a finished or unknown call, then any call with an id on that connection", ""),
 "sd4-C13-m1": ("tracer call merged and moved: indexes the nil result slice after a panic", "server built WithTracer + panicking method with an error result", "needed a tracer on some C13 servers"),
 "sd4-C13-m2": ("panic log formats all params with %+v, including the shared handler receiver", "a healthy call writing a map of the handler object truly in parallel with another call's panic", "NOT caught: needs two goroutines inside one statement's runtime at the same time (a Go memory-model race detected by the runtime's map checks); the step scheduler runs one goroutine at a time"),
 "sd4-C17-m1": ("resetReadDeadline moved to the callers of nextMessage, forgotten in tryReconnect", "reconnect, black hole before any frame arrives on the new link, client keeps sending", "needed the 'black hole right after a reconnect' variant in C17"),
 "sd4-C17-m2": ("final response written with w() instead of withLazyWriter: encoding under writeLk", "a result whose encoding takes longer than the client timeout, server pings on", "needed slow-to-encode results in C17"),
 "sd4-C20-m1": ("parameter encoding moved into the retry loop: the reader param is uploaded again", "retry-tagged reader call issued while the connection is down", "needed a retry-outage family in C20"),
 "se5-C02-m1": ("a request whose write fails is deleted from the in-flight map (so nobody ever answers it)", "write failing before the reader reports the fault: cut/reset inside a request being written, half-dead link", "caught as found (C03/C05 hang oracles; the same change was proposed independently for C05)"),
 "se5-C02-m2": ("handleCall writes the response with nextWriter instead of nextWriterGen: reverse-call responses cross a reconnect", "reconnecting client with a reverse handler that outlives its connection, same id in flight on the new one", "caught as found (C16 reverse-identity)"),
 "se5-C03-m1": ("'websocket routine exiting' wrapped as RPCConnectionError + retry-tagged calls retry on it: tagged call never returns on a dead client", "retry tag + closed / no-reconnect client", "caught as found (C03, C05, C18)"),
 "se5-C03-m2": ("tryReconnect takes errLk before writeLk: lock-order inversion against the request branch of the connection loop", "a call reaching the connection loop in the same instant the redial completes", "needed calls racing the *end* of the reconnect window (phase-5 ops triggered by the upgrade response of the redial, C03/C05)"),
 "se5-C05-m1": ("read deadline set only after the first inbound message of a connection", "stall right after a reconnect, before any frame, with application traffic resetting the idle timer", "caught as found (C17 black hole right after a reconnect)"),
 "se5-C08-m1": ("output-channel id counter reset on reconnect: ids of still-live channels are reused", "reverse subscription across a reconnect with the old producer alive", "caught as found (C16 reverse-subscription identity)"),
 "se5-C08-m2": ("a successful request write renews the read deadline", "silent peer while the client keeps writing", "caught as found (C17 silent-peer bound)"),
 "se5-C14-m1": ("channel registration reply skipped when the call context is cancelled - after the message writer was opened: empty message on the wire, call never answered", "xrpc.cancel between handler start and channel registration", "caught as found (C14 wire oracle)"),
 "se5-C14-m2": ("lazyWriter gives the connection writer back after 10 s although the handler is still writing: torn response, concurrent write panic", "multi-buffer response to a peer that stops reading for more than 10 s", "needed write stalls of 14 s and 45 s in C14 (had 3 s at most)"),
 "se5-C15-m1": ("empty / whitespace-only message returns from readFrame before re-arming the reader", "peer sends an empty text message, later the connection ends", "caught as found (C10 same-connection-keeps-answering)"),
 "se5-C15-m2": ("stopPings waits for the ping goroutine, which may be queued on writeLk behind a blocked write", "server pings + response blocked on a non-reading peer + half-close", "caught as found (C15 handlers-cancelled)"),
 "se5-C16-m1": ("requests channel buffered (8) + early exiting check: a request buffered when the routine exits belongs to nobody", "many concurrent reverse calls while the connection is lost", "caught as found (C16 reverse-call-fails-not-blocks)"),
 "se5-C16-m2": ("retry-tagged methods keep retrying on a Go error from sendRequest while the context is live", "retry-tagged reverse proxy method called with a context that is not the handler's, client gone", "needed a retry-tagged reverse method and handlers that call back with a detached context in C16"),
 "se5-C18-m1": ("a notification whose write fails is answered twice: the second send blocks the connection loop for ever", "write-side failure + caller context cancelled (xrpc.cancel notification) + close", "caught as found (C18 closer-returns)"),
 "se5-C18-m2": ("client-side channel buffer bounded at 8192 values; the sink then blocks under the channel-handler lock", "subscriber stalled with > 8200 pending values, then close", "needed the flood family in C18 (9000 values to a stalled subscriber, then close; 1 run in 2000)"),
 "sf6-C04-m1": ("per-client cache of proxy functions keyed by wire method + signature: a later field with the same wire method inherits the first one's retry / notify flags", "client merged from two structs sharing a method, the earlier one retry-tagged; cut after the handler ran", "needed a proxy merged from two structs (ProxyPre.CallRetryFirst in front of Proxy.Call) in the fault family"),
 "sf6-C04-m2": ("HTTP client re-dials on any non-timeout *net.OpError (Op == dial check missing): a reset after the handler ran re-POSTs the request", "http transport, RST between execution and response", "caught as found (C04 at-most-once, http-cut family)"),
 "sf6-C06-m1": ("channel-returning methods looked up by requested name: an aliased subscription gets done(false), its context cancelled at once", "subscription through a server-side alias", "needed aliased subscriptions (T.SubAlias) in C06 / C07 / C08"),
 "sf6-C06-m2": ("setupPings moved before the connection swap in tryReconnect: pong / ping handlers land on the dead connection", "reconnect, then a quiet period longer than the timeout", "caught as found (C17 healthy-after-reconnect)"),
 "sf6-C07-m1": ("client-side channel sink recycles decode targets without resetting them", "element type with optional / slice / map / pointer parts, consumer-paced stream", "needed struct elements with optional pointer, slice and map parts, re-verified after delivery"),
 "sf6-C07-m2": ("closing one of our output channels also deletes chanHandlers[id] - the peer's id space", "streams in both directions on one connection with coinciding ids", "caught as found by C16's reverse subscriptions; forward subscriptions next to reverse traffic were added to C16 as well"),
 "sf6-C10-m1": ("shared prologue of handleChanMessage / handleChanClose only checks for one param: xrpc.ch.val [N] with a live N indexes params[1]", "one-param xrpc.ch.val for a live channel id", "caught as found (C10 hostile-server; the first evaluation was lost to a harness edit in progress)"),
 "sf6-C10-m2": ("size limit taken from Content-Length only, body read through a LimitReader: an undeclared-length body is truncated and executed", "chunked POST or HandleRequest, first L bytes parse on their own", "needed chunked / HandleRequest modes and valid-prefix oversize bodies in C10's size family"),
 "sf6-C13-m1": ("id-less frames get a nil response writer: a panicking / unknown / ill-typed notification dereferences it outside doCall's recover", "notification whose handler panics, over websocket", "caught as found (C13 crash)"),
 "sf6-C13-m2": ("doCall re-panics http.ErrAbortHandler", "panic payload is exactly that sentinel", "needed sentinel panic payloads (http.ErrAbortHandler, context.Canceled, io.EOF) in C13 - added on reading the summary, before the first evaluation"),
 "sf6-C17-m1": ("ping goroutine sets a write deadline of 2 ping intervals and never clears it", "a write stalled longer than 2 ping intervals but shorter than the timeout", "caught by C14 (long write stalls, truncated message), not by C17, which has no write stalls"),
 "sf6-C17-m2": ("pings suppressed while the client has written something during the last interval", "server without pings + outbound-only traffic for longer than the timeout", "caught as found (C17 healthy-link-kept)"),
 "sf6-C20-m1": ("Content-Length for seekable readers computed by seeking to the end and back to offset 0", "seekable non-memory reader passed at a non-zero offset", "needed reader source kinds in C20 (section reader behind a consumed prefix, length-less reader, partly consumed bytes.Reader) - added on reading the summary"),
 "sf6-C20-m2": ("16-slot semaphore around the upload handler, released only when the stream was consumed", "> 16 concurrent reader calls whose handlers wait for each other before reading", "needed the barrier family in C20 (5-33 concurrent calls, handlers meet before reading)"),
 "sd4-C20-m2": ("server defaults hoisted into a package variable: all servers share one paramDecoders map", ">= 2 reader-enabled servers in one process", "needed a second reader-enabled server in C20"),
}


def main():
    rows = []
    for f in sorted(glob.glob(os.path.join(D, "seeded", "*", "meta.json"))):
        m = json.load(open(f))
        name = m["name"]
        if name in N:
            m["change"], m["needs"], m["history"] = N[name]
        m["what_was_run"] = ("tools/seeded.py: scratch worktree of /repo outside /repo and /verif; git apply patch.diff; go build ./...; "
                             "go test -count=1 ./... (must pass); demo_test.go copied into its package and run 3x with and 3x without the patch; "
                             "./check <property> --tier " + m.get("tier", "quick") + " with VERIF_REPO pointing at the patched worktree; worktree removed")
        json.dump(m, open(f, "w"), indent=1)
        caught = ",".join(m.get("caught_by") or []) or "-"
        rows.append((name, m.get("change", ""), caught, m.get("tier", "quick"), m.get("history", "")))
    print("| seeded change | what it is | caught by | tier | note |")
    print("|---|---|---|---|---|")
    for r in rows:
        print("| " + " | ".join(r) + " |")


main()
