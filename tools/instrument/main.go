// instrument rewrites a scratch copy of the library so that the simulator owns
// its nondeterminism. It never touches /repo. Rewrites (each can be disabled):
//
//	sync     "sync"      -> sync "verifsim/simrt/ssync"   (Mutex = channel lock + park)
//	rand     "math/rand" -> rand "verifsim/simrt/srand"
//	select   multi-way select -> seeded pre-poll (simrt.Choose) + masked select
//	rselect  reflect.Select(  -> simrt.ReflectSelect(
//	go       go f(x)     -> child identity allocated in the parent (simrt.Spawn/RunG)
//	maprange range <map> -> range simrt.SortedRange(<map>)
//	stmt     simrt.Stmt("file:func:line") before every statement of every function
//	         (a park only in runs that selected that function for fine-grained scheduling)
//
// usage: instrument [-skip a,b] dir...   (rewrites non-test .go files in place)
package main

import (
	"bytes"
	"flag"
	"fmt"
	"go/ast"
	"go/format"
	"go/parser"
	"go/token"
	"go/types"
	"os"
	"path/filepath"
	"strconv"
	"strings"
)

var skip = map[string]bool{}
var counter int

const simrtPath = "verifsim/simrt"

func main() {
	sk := flag.String("skip", "", "comma-separated rewrites to skip")
	flag.Parse()
	for _, s := range strings.Split(*sk, ",") {
		if s != "" {
			skip[s] = true
		}
	}
	total := map[string]int{}
	for _, dir := range flag.Args() {
		if err := doDir(dir, total); err != nil {
			fmt.Fprintln(os.Stderr, "instrument:", err)
			os.Exit(1)
		}
	}
	fmt.Printf("instrumented: sync=%d rand=%d select=%d rselect=%d go=%d maprange=%d stmt=%d\n",
		total["sync"], total["rand"], total["select"], total["rselect"], total["go"], total["maprange"], total["stmt"])
}

type fakeImporter struct{}

func (fakeImporter) Import(path string) (*types.Package, error) {
	name := path
	if i := strings.LastIndex(name, "/"); i >= 0 {
		name = name[i+1:]
	}
	p := types.NewPackage(path, name)
	p.MarkComplete()
	return p, nil
}

func doDir(dir string, total map[string]int) error {
	fset := token.NewFileSet()
	ents, err := os.ReadDir(dir)
	if err != nil {
		return err
	}
	var files []*ast.File
	var names []string
	for _, e := range ents {
		n := e.Name()
		if e.IsDir() || !strings.HasSuffix(n, ".go") || strings.HasSuffix(n, "_test.go") {
			continue
		}
		f, err := parser.ParseFile(fset, filepath.Join(dir, n), nil, parser.ParseComments)
		if err != nil {
			return err
		}
		files = append(files, f)
		names = append(names, filepath.Join(dir, n))
	}
	if len(files) == 0 {
		return nil
	}
	// permissive type-check: only locally declared types matter (map detection)
	info := &types.Info{Types: map[ast.Expr]types.TypeAndValue{}}
	if !skip["maprange"] {
		conf := types.Config{Importer: fakeImporter{}, Error: func(error) {}, FakeImportC: true}
		func() {
			defer func() { recover() }()
			conf.Check(files[0].Name.Name, fset, files, info)
		}()
	}
	for i, f := range files {
		r := &rewriter{fset: fset, file: f, info: info, base: filepath.Base(names[i]), done: map[ast.Node]bool{}, n: map[string]int{}}
		r.run()
		for k, v := range r.n {
			total[k] += v
		}
		if !r.changed {
			continue
		}
		// keep only comments before the package clause (build constraints):
		// free-floating comments would be misplaced around synthesized nodes
		var keep []*ast.CommentGroup
		for _, cg := range f.Comments {
			if cg.End() < f.Package {
				keep = append(keep, cg)
			}
		}
		f.Comments = keep
		stripDocs(f)
		var buf bytes.Buffer
		if err := format.Node(&buf, fset, f); err != nil {
			return fmt.Errorf("%s: %v", names[i], err)
		}
		if err := os.WriteFile(names[i], buf.Bytes(), 0o644); err != nil {
			return err
		}
	}
	return nil
}

func stripDocs(f *ast.File) {
	ast.Inspect(f, func(n ast.Node) bool {
		switch d := n.(type) {
		case *ast.FuncDecl:
			d.Doc = nil
		case *ast.GenDecl:
			d.Doc = nil
		case *ast.Field:
			d.Doc, d.Comment = nil, nil
		case *ast.ValueSpec:
			d.Doc, d.Comment = nil, nil
		case *ast.TypeSpec:
			d.Doc, d.Comment = nil, nil
		case *ast.ImportSpec:
			d.Doc, d.Comment = nil, nil
		}
		return true
	})
	f.Doc = nil
}

type rewriter struct {
	fset    *token.FileSet
	file    *ast.File
	info    *types.Info
	base    string
	done    map[ast.Node]bool
	n       map[string]int
	changed bool
	needSim bool
}

func (r *rewriter) site(p token.Pos) string {
	return r.base + ":" + strconv.Itoa(r.fset.Position(p).Line)
}

func id(s string) *ast.Ident { return ast.NewIdent(s) }
func sim(fn string) ast.Expr { return &ast.SelectorExpr{X: id("simrt"), Sel: id(fn)} }
func call(fn ast.Expr, args ...ast.Expr) *ast.CallExpr {
	return &ast.CallExpr{Fun: fn, Args: args}
}
func strlit(s string) ast.Expr { return &ast.BasicLit{Kind: token.STRING, Value: strconv.Quote(s)} }
func intlit(i int) ast.Expr    { return &ast.BasicLit{Kind: token.INT, Value: strconv.Itoa(i)} }
func define(name string, v ast.Expr) ast.Stmt {
	return &ast.AssignStmt{Lhs: []ast.Expr{id(name)}, Tok: token.DEFINE, Rhs: []ast.Expr{v}}
}

func (r *rewriter) run() {
	// imports
	for _, im := range r.file.Imports {
		p, _ := strconv.Unquote(im.Path.Value)
		switch {
		case p == "sync" && !skip["sync"] && (im.Name == nil || im.Name.Name != "_"):
			name := "sync"
			if im.Name != nil {
				name = im.Name.Name
			}
			im.Path.Value = strconv.Quote("verifsim/simrt/ssync")
			im.Name = id(name)
			r.changed = true
			r.n["sync"]++
		case p == "math/rand" && !skip["rand"] && (im.Name == nil || im.Name.Name != "_"):
			name := "rand"
			if im.Name != nil {
				name = im.Name.Name
			}
			im.Path.Value = strconv.Quote("verifsim/simrt/srand")
			im.Name = id(name)
			r.changed = true
			r.n["rand"]++
		}
	}

	ast.Inspect(r.file, func(n ast.Node) bool {
		switch n := n.(type) {
		case *ast.BlockStmt:
			n.List = r.fixList(n.List)
		case *ast.CaseClause:
			n.Body = r.fixList(n.Body)
		case *ast.CommClause:
			n.Body = r.fixList(n.Body)
		case *ast.LabeledStmt:
			// a labelled go statement: wrap the inner statement only
			if g, ok := n.Stmt.(*ast.GoStmt); ok && !skip["go"] {
				if ns := r.goStmt(g); ns != nil {
					n.Stmt = ns
				}
			}
		case *ast.RangeStmt:
			if !skip["maprange"] && !r.done[n] {
				if tv, ok := r.info.Types[n.X]; ok && tv.Type != nil {
					if _, isMap := tv.Type.Underlying().(*types.Map); isMap {
						n.X = call(sim("SortedRange"), n.X)
						r.done[n] = true
						r.n["maprange"]++
						r.needSim, r.changed = true, true
					}
				}
			}
		case *ast.CallExpr:
			if !skip["rselect"] {
				if se, ok := n.Fun.(*ast.SelectorExpr); ok && se.Sel.Name == "Select" {
					if x, ok := se.X.(*ast.Ident); ok && x.Name == "reflect" {
						n.Fun = sim("ReflectSelect")
						r.n["rselect"]++
						r.needSim, r.changed = true, true
					}
				}
			}
		}
		return true
	})

	if !skip["stmt"] {
		r.stmts()
	}
	if r.needSim {
		r.addImport("simrt", simrtPath)
	}
}

// stmts inserts simrt.Stmt(site) before every statement in function bodies.
func (r *rewriter) stmts() {
	var instr func(fn string, list []ast.Stmt) []ast.Stmt
	var walk func(fn string, n ast.Node)
	instr = func(fn string, list []ast.Stmt) []ast.Stmt {
		out := make([]ast.Stmt, 0, 2*len(list))
		for _, st := range list {
			switch st.(type) {
			case *ast.CaseClause, *ast.CommClause, *ast.EmptyStmt:
				out = append(out, st)
				continue
			}
			if es, ok := st.(*ast.ExprStmt); ok {
				if c, ok := es.X.(*ast.CallExpr); ok {
					if se, ok := c.Fun.(*ast.SelectorExpr); ok {
						if x, ok := se.X.(*ast.Ident); ok && x.Name == "simrt" && se.Sel.Name == "Stmt" {
							out = append(out, st)
							continue
						}
					}
				}
			}
			site := r.base + ":" + fn + ":" + strconv.Itoa(r.fset.Position(st.Pos()).Line)
			if st.Pos().IsValid() {
				out = append(out, &ast.ExprStmt{X: call(sim("Stmt"), strlit(fn), strlit(site))})
				r.n["stmt"]++
				r.needSim, r.changed = true, true
			}
			out = append(out, st)
		}
		return out
	}
	skipLit := map[*ast.FuncLit]bool{}
	walk = func(fn string, n ast.Node) {
		ast.Inspect(n, func(m ast.Node) bool {
			switch b := m.(type) {
			case *ast.CallExpr:
				// x.Do(func(){...}): sync.Once holds a real mutex while the function
				// runs; parking there could stall the bubble
				if se, ok := b.Fun.(*ast.SelectorExpr); ok && se.Sel.Name == "Do" {
					for _, a := range b.Args {
						if fl, ok := a.(*ast.FuncLit); ok {
							skipLit[fl] = true
						}
					}
				}
			case *ast.FuncLit:
				if skipLit[b] {
					return false
				}
				if b.Body != nil && m != n {
					walk(fn, b.Body)
					return false
				}
			case *ast.BlockStmt:
				b.List = instr(fn, b.List)
			case *ast.CaseClause:
				b.Body = instr(fn, b.Body)
			case *ast.CommClause:
				b.Body = instr(fn, b.Body)
			}
			return true
		})
	}
	for _, d := range r.file.Decls {
		fd, ok := d.(*ast.FuncDecl)
		if !ok || fd.Body == nil {
			continue
		}
		name := fd.Name.Name
		switch name {
		case "init", "Error", "String", "GoString", "Format", "Unwrap", "Is", "As", "MarshalJSON", "UnmarshalJSON", "MarshalText", "UnmarshalText":
			// called from inside fmt / errors / encoding/json / loggers, possibly
			// while those hold real mutexes: never a scheduling point
			continue
		}
		walk(name, fd.Body)
	}
}

func (r *rewriter) addImport(name, path string) {
	spec := &ast.ImportSpec{Name: id(name), Path: &ast.BasicLit{Kind: token.STRING, Value: strconv.Quote(path)}}
	for _, d := range r.file.Decls {
		if gd, ok := d.(*ast.GenDecl); ok && gd.Tok == token.IMPORT {
			gd.Specs = append(gd.Specs, spec)
			if !gd.Lparen.IsValid() {
				gd.Lparen = gd.Pos()
				gd.Rparen = gd.End()
			}
			r.file.Imports = append(r.file.Imports, spec)
			return
		}
	}
	gd := &ast.GenDecl{Tok: token.IMPORT, Specs: []ast.Spec{spec}}
	r.file.Decls = append([]ast.Decl{gd}, r.file.Decls...)
	r.file.Imports = append(r.file.Imports, spec)
}

func (r *rewriter) fixList(list []ast.Stmt) []ast.Stmt {
	out := make([]ast.Stmt, 0, len(list))
	for _, st := range list {
		out = append(out, r.fixStmt(st))
	}
	return out
}

func (r *rewriter) fixStmt(st ast.Stmt) ast.Stmt {
	if r.done[st] {
		return st
	}
	switch s := st.(type) {
	case *ast.SelectStmt:
		if !skip["select"] {
			if ns := r.selectStmt(s, nil); ns != nil {
				return ns
			}
		}
	case *ast.LabeledStmt:
		if sel, ok := s.Stmt.(*ast.SelectStmt); ok && !skip["select"] && !r.done[sel] {
			if ns := r.selectStmt(sel, s); ns != nil {
				return ns
			}
		}
	case *ast.GoStmt:
		if !skip["go"] {
			if ns := r.goStmt(s); ns != nil {
				return ns
			}
		}
	}
	return st
}

func unparen(e ast.Expr) ast.Expr {
	for {
		p, ok := e.(*ast.ParenExpr)
		if !ok {
			return e
		}
		e = p.X
	}
}

// recvExpr returns the pointer to the channel operand of a receive clause.
func recvOperand(comm ast.Stmt) *ast.UnaryExpr {
	switch c := comm.(type) {
	case *ast.ExprStmt:
		if u, ok := unparen(c.X).(*ast.UnaryExpr); ok && u.Op == token.ARROW {
			return u
		}
	case *ast.AssignStmt:
		if len(c.Rhs) == 1 {
			if u, ok := unparen(c.Rhs[0]).(*ast.UnaryExpr); ok && u.Op == token.ARROW {
				return u
			}
		}
	}
	return nil
}

func (r *rewriter) selectStmt(s *ast.SelectStmt, lbl *ast.LabeledStmt) ast.Stmt {
	r.done[s] = true
	ncomm := 0
	for _, c := range s.Body.List {
		if cc := c.(*ast.CommClause); cc.Comm != nil {
			ncomm++
		}
	}
	if ncomm < 2 {
		return nil
	}
	counter++
	k := counter
	sname := fmt.Sprintf("_sims%d", k)
	var hoist []ast.Stmt
	var cases []ast.Expr
	type patch func()
	var patches []patch
	i := 0
	for _, c := range s.Body.List {
		cc := c.(*ast.CommClause)
		if cc.Comm == nil {
			continue
		}
		cname := fmt.Sprintf("_simc%d_%d", k, i)
		idx := i
		i++
		if snd, ok := cc.Comm.(*ast.SendStmt); ok {
			vname := fmt.Sprintf("_simv%d_%d", k, idx)
			hoist = append(hoist, define(cname, snd.Chan))
			hoist = append(hoist, define(vname, call(sim("V"), id(cname), snd.Value)))
			cases = append(cases, call(sim("S"), id(cname), id(vname)))
			patches = append(patches, func() {
				snd.Chan = call(sim("MS"), id(sname), intlit(idx), id(cname))
				snd.Value = id(vname)
			})
			continue
		}
		u := recvOperand(cc.Comm)
		if u == nil {
			return nil // unknown clause shape: leave the select alone
		}
		hoist = append(hoist, define(cname, u.X))
		cases = append(cases, call(sim("R"), id(cname)))
		patches = append(patches, func() {
			u.X = call(sim("MR"), id(sname), intlit(idx), id(cname))
		})
	}
	for _, p := range patches {
		p()
	}
	// a clause reached by blocking (nothing was ready when Choose polled) was
	// woken by the Go runtime, concurrently with whoever made it ready: park
	// first, so that the scheduler orders the two continuations
	for _, c := range s.Body.List {
		if cc := c.(*ast.CommClause); cc.Comm != nil {
			woke := &ast.ExprStmt{X: call(sim("Woke"), id(sname), strlit(r.site(s.Pos())))}
			r.done[woke] = true
			cc.Body = append([]ast.Stmt{woke}, cc.Body...)
		}
	}
	args := append([]ast.Expr{strlit(r.site(s.Pos()))}, cases...)
	hoist = append(hoist, define(sname, call(sim("Choose"), args...)))
	var inner ast.Stmt = s
	if lbl != nil {
		inner = lbl
		r.done[lbl] = true
	}
	blk := &ast.BlockStmt{List: append(hoist, inner)}
	r.done[blk] = false
	r.n["select"]++
	r.needSim, r.changed = true, true
	return blk
}

func isLiteralArg(e ast.Expr) bool {
	switch x := unparen(e).(type) {
	case *ast.BasicLit:
		return true
	case *ast.Ident:
		return x.Name == "nil" || x.Name == "true" || x.Name == "false"
	case *ast.UnaryExpr:
		return isLiteralArg(x.X) && x.Op != token.ARROW && x.Op != token.AND
	}
	return false
}

func (r *rewriter) goStmt(g *ast.GoStmt) ast.Stmt {
	if r.done[g] {
		return nil
	}
	r.done[g] = true
	c := g.Call
	site := r.site(g.Pos())
	spawn := call(sim("Spawn"), strlit(site))
	if fl, ok := unparen(c.Fun).(*ast.FuncLit); ok && len(c.Args) == 0 && fl.Type.Results == nil {
		g.Call = call(sim("RunG"), spawn, fl)
		r.n["go"]++
		r.needSim, r.changed = true, true
		return g
	}
	// builtins and conversions cannot be bound to a variable
	if idn, ok := unparen(c.Fun).(*ast.Ident); ok {
		switch idn.Name {
		case "close", "panic", "print", "println", "delete", "copy", "append", "recover", "clear":
			return nil
		}
	}
	for _, a := range c.Args {
		if _, isCall := unparen(a).(*ast.CallExpr); isCall && len(c.Args) == 1 {
			return nil // possibly f(g()) with a multi-value g
		}
	}
	counter++
	k := counter
	fname := fmt.Sprintf("_simf%d", k)
	list := []ast.Stmt{define(fname, c.Fun)}
	var args []ast.Expr
	for i, a := range c.Args {
		if isLiteralArg(a) {
			args = append(args, a)
			continue
		}
		an := fmt.Sprintf("_sima%d_%d", k, i)
		list = append(list, define(an, a))
		args = append(args, id(an))
	}
	inner := &ast.CallExpr{Fun: id(fname), Args: args}
	if c.Ellipsis.IsValid() {
		inner.Ellipsis = 1
	}
	body := &ast.FuncLit{Type: &ast.FuncType{Params: &ast.FieldList{}}, Body: &ast.BlockStmt{List: []ast.Stmt{&ast.ExprStmt{X: inner}}}}
	g.Call = call(sim("RunG"), spawn, body)
	list = append(list, g)
	r.n["go"]++
	r.needSim, r.changed = true, true
	return &ast.BlockStmt{List: list}
}
