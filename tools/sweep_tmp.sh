#!/bin/bash
export GOFLAGS=-mod=mod GOPROXY=off GOSUMDB=off GOTOOLCHAIN=local
for s in ${SWEEP_SEEDS:-31 32}; do for p in C02 C03 C04 C05 C06 C07 C08 C10 C13 C14 C15 C16 C17 C18 C20; do VERIF_SEED=$s ./check $p --tier ${SWEEP_TIER:-quick} --nomin 2>&1 | grep -v "^$" | grep -a "VIOLATION\|seed=\|MACHINERY\|KNOWN\|warning\|exit=" | cut -c1-400; done; done
