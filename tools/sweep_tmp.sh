#!/bin/bash
export GOFLAGS=-mod=mod GOPROXY=off GOSUMDB=off GOTOOLCHAIN=local
for s in 11 12 13; do for p in C03 C05 C14 C16 C17 C18; do VERIF_SEED=$s ./check $p --tier quick --nomin 2>&1 | grep -v "^$" | tail -3 | cut -c1-400; done; done
