#!/bin/bash
# Regression of the repairs: reverts each fix: commit of /repo in a scratch worktree under /tmp and
# runs the quick check of its property against it (VERIF_REPO); every defect must be reported again.
# for each fix commit: revert it in a scratch worktree and run the check(s) that must report the defect again
cd /verif
export GOFLAGS=-mod=mod GOPROXY=off GOSUMDB=off GOTOOLCHAIN=local
while read c props; do
  wt=/tmp/rv_$c
  git -C /repo worktree remove --force $wt 2>/dev/null; rm -rf $wt
  git -C /repo worktree add -q --detach $wt HEAD
  if ! git -C $wt revert -n $c >/dev/null 2>&1; then
    # conflicts with later fixes: try reverse-applying the diff with fuzz
    git -C $wt revert --abort 2>/dev/null; git -C $wt checkout -q -- .
    git -C /repo show $c -- . ':!*_test.go' | (cd $wt && patch -R -p1 -F3 --no-backup-if-mismatch >/dev/null 2>&1) || { echo "$c: cannot revert cleanly"; git -C /repo worktree remove --force $wt; continue; }
  fi
  (cd $wt && go build ./... ) || { echo "$c: reverted tree does not build"; git -C /repo worktree remove --force $wt; continue; }
  for p in $props; do
    tier=quick; pp=$p
    case $p in *:t) tier=thorough; pp=${p%:t};; esac
    extra=""; [ $tier = thorough ] && extra="--budget 300"
    out=$(VERIF_REPO=$wt ./check $pp --tier $tier --nomin $extra 2>&1)
    echo "$c $pp $tier: $(echo "$out" | grep -a "exit=" | tail -1 | cut -c1-160)"
    echo "$out" | grep -a -A1 "^VIOLATION" | head -2 | cut -c1-260
    rm -f replays/$pp-*
  done
  git -C /repo worktree remove --force $wt; rm -rf $wt
done <<'L'
5e6fc01 C03 C05
53d9e04 C18 C08
2d0f8c8 C15
3331758 C10
11af003 C20
1bed314 C20
ba12714 C05
d6ae0ad C16
6bb42b0 C15
9012e6c C16
4bc1a9b C15 C15:t
fa4b7cb C17
L
