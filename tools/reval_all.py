#!/usr/bin/env python3
"""Re-evaluate every kept seeded change (or those whose name starts with one of the arguments)
on the current harness: tools/seeded.py in SEEDED_CHECKS_ONLY mode, scratch under /tmp/reval.
Never edit harness / simrt / simnet / cmd while this runs: every check builds from the working tree."""
import json,glob,os,shutil,subprocess,sys
os.chdir('/verif')
names=sorted(os.path.basename(os.path.dirname(f)) for f in glob.glob('seeded/*/meta.json'))
only=sys.argv[1:] 
for n in names:
    if only and not any(n.startswith(o) for o in only): continue
    m=json.load(open(f'seeded/{n}/meta.json'))
    d=f'/tmp/reval/{n}'
    shutil.rmtree(d,ignore_errors=True); os.makedirs(d)
    for a,b in (('patch.diff','patch.diff'),('demo_test.go','demo_test.go'),('README.agent.md','README.md')):
        if os.path.exists(f'seeded/{n}/{a}'): shutil.copy(f'seeded/{n}/{a}',f'{d}/{b}')
    env=dict(os.environ,SEEDED_CHECKS_ONLY='1')
    if m.get('tier')=='thorough':
        env.update(SEEDED_TIER='thorough',SEEDED_BUDGET='300')
    props=m['properties']
    # previously catching properties first
    props=sorted(props,key=lambda p:(p not in (m.get('caught_by') or []),))
    print('===',n,props,flush=True)
    p=subprocess.run(['python3','tools/seeded.py',d,n]+props,env=env,stdout=subprocess.PIPE,stderr=subprocess.STDOUT,text=True)
    print('\n'.join(p.stdout.splitlines()[-8:])[:1500],flush=True)
    shutil.rmtree(d,ignore_errors=True)
