#!/usr/bin/env python3
"""Regenerates /verif/MANIFEST.json from the table below (kept in one place so the
claims, levels and not-applicable list cannot drift apart)."""
import json, os
D = os.path.dirname(os.path.dirname(os.path.abspath(__file__)))

NOTE = ("Trusted base: the simulator (simrt step scheduler, simnet transport, testing/synctest fake clock), the source "
        "instrumenter (lock type, select polling order, reflect.Select, go-statement identity, map iteration order, jitter "
        "source, a park before goroutine starts, after blocking-select wake-ups and - in one run of six - before statements; no library statement removed or reordered), and the harness handlers/oracles. Search over seeds, not "
        "proof. Pre-emption at locks, multi-way selects, reflect.Select, simulated writes, dials, goroutine starts and harness yields in every run, and at every statement of a random subset of library functions in one run of six; never inside one statement or inside un-instrumented code (gorilla, net/http, encoding/json).")

claimed = {
 "C02": ("exploration", "exploration", "3.x/4 C02",
         "Seeded search over schedules of the real client/server under a healthy simulated network: handler completion order, "
         "lock/select/transport interleavings, latency and TCP re-segmentation are PRNG decisions; oracles: every call returns "
         "(clock-free hang oracle), own-token result, one response frame per request id on the wire tap, handler ran once, "
         "porcupine linearizability of a shared counter. Thorough tier: every completion-order permutation for N = 2..5 (152 variants) under many schedules; ws, http (with and without keep-alive) and custom transports.",
         "deterministic simulation (seeded step scheduler + simulated transport) with porcupine history check"),
 "C03": ("exploration", "fault_enumeration", "4 C03",
         "Seeded search (quick) and systematic sweep of fault kind x direction x frame x byte position (thorough) over the real "
         "reconnecting client: FIN/RST/black hole/stall cut before, inside the header, mid-payload, before the last byte or "
         "after any frame, refused/hung/down redials, second fault during the handshake; calls issued before the fault, in the "
         "reconnect window, a few scheduler steps after the redial's upgrade response and after healing; oracle: after heal + 12 fake minutes every call has returned with its own result or an error.",
         "deterministic simulation with frame-positioned fault injection and clock-free hang oracle"),
 "C04": ("exploration", "exploration", "4 C04",
         "Same fault space as C03 plus a healthy family; per-token handler execution counts and request frames per id on the wire "
         "tap decide at-most-once / exactly-once-on-answer / notification shape / no spontaneous re-send; retry-tagged calls are the contrast case.",
         "deterministic simulation with fault injection; execution-count and wire-tap oracles"),
 "C05": ("exploration", "exploration", "4 C05",
         "Outage shapes (fault - including an orderly close frame from an intermediary - x failed redials x listener down x second fault) x back-off settings x reconnect/no-reconnect x "
         "error mapping; oracles: probe after heal succeeds on the same client object, retry-tagged calls return genuine results, "
         "connection error typed iff mapping is on, redial spacing from the dial log in fake time, no redial without reconnect.",
         "deterministic simulation with fault injection and fake-clock dial-log oracle"),
 "C07": ("exploration", "exploration", "4 C07",
         "Healthy-network search over producer/consumer/forwarder interleavings of 1-5 concurrent subscriptions (lengths 0..300, around the 32-slot sink buffer and the 256-frame executor queue), early producers, stalled and partial consumers, unary calls alongside, int / float / struct elements (optional pointer, slice and map parts), subscriptions by name and through a server-side alias, twin streams on two connections of one server; oracles: received == produced, close after the last value, wire tap: announcing response precedes first value, values only on announced ids and of the right subscription, others complete while one consumer stalls.",
         "deterministic simulation (seeded step scheduler) with stream-sequence and wire-order oracles"),
 "C08": ("exploration", "fault_enumeration", "4 C08",
         "C07's workload plus termination causes (handler close, subscription-context cancel after k yields, connection fault at frame x position, client close) singly and racing, plus streams opened on the re-established connection; oracles after heal + 12 fake minutes: every channel handed to a caller is closed, received is a prefix of sent, no double close (process death), no call left hanging.",
         "deterministic simulation with fault injection, prefix oracle and clock-free hang oracle"),
 "C17": ("exploration", "exploration", "4 C17",
         "Fake-clock search over (ping, timeout, server ping) satisfying the documented constraint (timeouts 20 ms..60 s), handler durations up to 5x timeout, idle gaps up to 20x timeout, slow streams; healthy oracle (run-time invariant): no redial, no failed call, no lost stream; black-hole family: pending calls fail with the connection error and a redial starts within 3*timeout+2*ping of the peer falling silent, also while the application keeps issuing calls; the healthy oracle is also applied to a connection re-established after a reset, optionally after an outage of 0.45-3.15 timeouts (then: exactly two successful dials).",
         "deterministic simulation on a fake clock (testing/synctest) with black-hole fault injection"),
 "C18": ("exploration", "fault_enumeration", "4 C18",
         "The closer fires at scheduler step k of a mixed workload (queued/written/answered calls, large frames in chunks, streams, reconnect window, redial in progress); quick samples k, thorough sweeps k = 0..599; oracles after 12 fake minutes: closer returned, all calls returned, late calls fail, every handed channel closed, no dial after the closer returned, http/custom closers return and leave calls alone. Rare flood runs: 9000 values pushed to a subscriber that reads nothing until the closer has returned. Clients without a time-out whose peer stalls for good inside a frame: the closer returns before anything heals.",
         "deterministic simulation with close-instant sweep and clock-free hang oracle"),
 "C06": ("exploration", "exploration", "4 C06",
         "Healthy-network search over which subset of concurrent calls / subscriptions (ws and http, one or two connections) is cancelled and at which scheduler instant (before send, after send, racing the response, after the subscribing call returned); run-time invariant: a handler context is done only if its own caller cancelled; hang oracle: a cancelled call's running handler sees the cancellation, also while a notification handler on the same connection stays busy for the whole run, and with sampled trace spans on every call; wire tap: cancel frames carry no id and exactly the cancelled request's id.",
         "deterministic simulation (seeded step scheduler) with per-handler context invariant"),
 "C10": ("exploration", "exploration", "4 C10",
         "Byzantine peer: a harness-driven raw WebSocket endpoint sends grammar-generated and mutated frames (built-in xrpc.* methods with every params/id shape, responses to requests never made, garbage, binary, empty), preferring ids that refer to live state, interleaved by the scheduler with an honest client's calls, subscription and in-flight call on another connection; symmetric hostile-server family against a real client; oracle: process alive (a crash is attributed by stack), honest traffic undisturbed, same connection still answers. Size clause enumerated (L-1, L, L+1, L+2, 4L; POST with Content-Length, chunked POST, RPCServer.HandleRequest; oversize bodies whose first L bytes parse on their own).",
         "deterministic simulation with a Byzantine endpoint; process-crash detection by the driver"),
 "C13": ("exploration", "exploration", "4 C13",
         "Handler-panic fault (string, error, custom struct, nil-map write, nil dereference, index, panic(nil), the sentinels http.ErrAbortHandler / context.Canceled / io.EOF) injected into unary (also retry-tagged), notification, channel-returning and client-side reverse handlers over ws and http while siblings are queued, running or streaming; also inside an HTTP / HandleRequest batch; oracle: process alive, panicking call returns an error mentioning the panic, batch siblings keep their replies, siblings keep C02/C07 guarantees, later calls succeed.",
         "deterministic simulation with handler-panic fault injection"),
 "C14": ("exploration", "exploration", "4 C14",
         "Maximal writer diversity on one connection in both directions (requests, both cancel paths, lazily written responses up to 5x the write buffer, channel registrations/values/closes, reverse calls, pings down to 5 ms, close handshake, reconnect swap, write stalls of 50 ms to 45 s with partial writes); the simulated Conn.Write parks while the caller holds writeLk; black-box oracle: every tap byte stream parses as whole WebSocket frames and whole JSON-RPC messages, nothing after a close frame, no panic (gorilla's concurrent-write panic is a process crash). The memory-model clause ('never accessed without synchronisation') is NOT decided: the step scheduler serialises execution and blinds -race.",
         "deterministic simulation with frame-parsing wire taps on every byte stream"),
 "C15": ("exploration", "fault_enumeration", "4 C15",
         "End cause (graceful client close, FIN, RST, server context cancel) x mix of handlers in progress (unary, notification, streaming, reverse-calling, large results) x handler reaction time (0..400 fake seconds), 1-3 connections, a peer that stopped reading (with a reverse call issued into the stall), rare reverse-flood runs (a notification handler 11 000 values behind on a stream of its client), one run in five with sampled trace spans on every call; oracles: every handler context of the dead connection is cancelled one fake minute later and none on other connections; after the handlers returned + 12 fake minutes no goroutine carrying the dead connection's pprof label remains.",
         "deterministic simulation with fault injection and goroutine-label leak oracle"),
 "C16": ("exploration", "exploration", "4 C16",
         "2-4 simultaneously connected clients with client-side handlers (plain, aliased, rpc_method-tagged, retry-tagged; called with the handler's context or a detached one), reverse and forward subscriptions on the same connection, rarely 40-130 forward calls pending on their reverse calls at once, concurrent forward calls whose server handlers call back 1-3 times while pending, FIN/RST at any frame position of the exchange, plus http/custom clients and a server without the option; oracles: every reverse call returns the identity of the client whose request is being served, server handlers never stay blocked once the connection is gone, calls served on the connection made after the fault succeed, nobody receives another call's panic error, no reverse client over non-WS transports or without the option.",
         "deterministic simulation with fault injection and identity-token oracle"),
 "C20": ("exploration", "exploration", "4 C20",
         "httpio encoder/decoder pair over the simulated network with the side-channel upload through a replaced http.DefaultTransport: arrival order of upload vs RPC request and the interleaving of 1-4 (barrier family: 5-33, handlers waiting for each other before reading) concurrent uploads are network scheduling decisions; readers of four kinds (bytes.Reader, section reader behind a consumed prefix, length-less reader = chunked upload, partly consumed reader); lengths 0..1 MiB around buffer sizes, read patterns (ReadAll, byte-at-a-time, odd buffer, reads past EOF, Close before/after EOF, Close twice), readers handed to a channel-returning method and consumed after it returned; oracles: byte-exact (length + hash), EOF repeated consistently, no panic, every upload request completes with 200.",
         "deterministic simulation (network-ordered rendezvous) with byte-exact stream oracle"),
}

not_applicable = {
 "C01": "pure function of (method signature, argument/result values, configuration): no schedule, clock, fault or interleaving in the statement; deciding it is value generation (property-based testing), not simulation",
 "C09": "the reply to a request body is a function of the body and the registered handlers; batch elements are handled sequentially in one goroutine; no schedule, clock or fault to put behind a seam",
 "C11": "pure encode/decode of error values through the registration tables; quantified over inputs and configurations only",
 "C12": "a table lookup and a decode over a small configuration universe; enumeration, not simulation",
 "C19": "auth.HasPerm / PermissionedProxy / auth.Handler are synchronous, stateless functions of (context value, defaults, tag, header); exhaustive enumeration of a 3-permission universe is the right tool, there is nothing to simulate",
}

def main():
    props = [json.loads(l) for l in open(os.path.join(D, "properties.jsonl"))]
    ids = [p["id"] for p in props]
    checks = []
    for pid in ids:
        if pid not in claimed:
            continue
        q, t, ref, text, tech = claimed[pid]
        checks.append({
            "property_id": pid,
            "quick_cmd": f"./check {pid} --tier quick",
            "thorough_cmd": f"./check {pid} --tier thorough",
            "evidence_file": f"/verif/evidence/{pid}.json",
            "replay_cmd_template": f"./check {pid} --replay {{path}}",
            "engine": "verifsim",
            "level_claimed": {"category": "exploration", "text": text + (" The thorough tier additionally sweeps the fault / instant dimension systematically (variant index), still sampling schedules; both tiers are reported as exploration." if q != t else ""), "design_ref": "DESIGN.md section " + ref},
            "level_note": NOTE,
            "technique": tech,
        })
    na = []
    for pid in ids:
        if pid in claimed:
            continue
        reason = not_applicable.get(pid, "not yet claimed: check under construction (see DESIGN.md section 4)")
        na.append({"property_id": pid, "reason": reason})
    m = {
        "version": 1,
        "setup_cmd": "./setup.sh",
        "hooks": {
            "guard": "verifsim",
            "enable": "no hook is committed to /repo: every check copies /repo's working tree to a mktemp directory and applies /verif/tools/instrument to the copy at build time (sync.Mutex -> channel lock + park, multi-way select -> seeded pre-poll, reflect.Select, go-statement identity, map range order, math/rand); the build tag 'verifsim' is reserved and unused",
            "baseline_off_cmd": "cd /repo && go build ./... && go test -vet=off -count=1 -timeout 25m ./...",
            "source_commits": [],
            "add_only": True,
        },
        "engines": [{"name": "verifsim", "path": "/verif", "serves_properties": sorted(claimed), "kind_free_text": "deterministic simulation with fault injection: seeded step scheduler over testing/synctest, simulated TCP transport with WebSocket-frame-aware taps and faults, recorded histories checked by oracles and porcupine"}],
        "checks": checks,
        "not_applicable": na,
        "notes": "Exit codes of every command: 0 held, 1 VIOLATION line(s) printed, 2 machinery trouble. Known findings: /verif/known_findings.json.",
    }
    json.dump(m, open(os.path.join(D, "MANIFEST.json"), "w"), indent=1)
    print("wrote MANIFEST.json:", len(checks), "checks,", len(na), "not applicable")

main()
